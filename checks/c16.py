"""C16 - drivers pair each command with its own answer, typed by the command.
Engines: drvsim (tridonic, hasseb, luba, sci) and syncsim (daliserver, ATX hat).
Every answer value in a run is unique, so a value returned to the wrong caller
is attributable."""
from sim import cmds, drvsim, plans, syncsim
from sim.core import Violation
from sim.oracles import base_result, overlap_nontrivial
from sim.runner import add_violation, new_result

PROP = "C16"
LEVEL = "exploration"
TIERS = {
    "quick": {"seeds": 90000, "chunk": 500, "wall_s": 300, "shrink_s": 40},
    "thorough": {"seeds": 2400000, "chunk": 1000, "wall_s": 3000, "shrink_s": 120},
}
RULE = ("one seed -> one plan: engine/driver = seed mod 6 (tridonic, hasseb, luba, sci on the virtual "
        "asyncio loop; daliserver client and ATX hat on the blocking-peer simulator); 1-3 callers issuing "
        "query / non-query / send-twice / device-type / 24-bit commands singly, under an explicit lock and "
        "in sequences; every query gets a seeded bus outcome (silent / unique value / framing error), "
        "serial gateways may deliver the answer clearly later than the documented receive timeout, other "
        "masters' query+answer transactions are interleaved. Non-trivial iff >= 2 queries were answered "
        "with different outcomes or callers overlapped; distinct = distinct (event kind, actor) sequence.")
ASSUMPTIONS = [
    "gateway models per DESIGN.md 2.5; hasseb workload restricted to device-type-0 queries (documented firmware limitation)",
    "serial gateways: a garbled answer maps to 'silent' (the property says they only log it); an answer later than 120% of the documented timeout may be reported silent but never given to another command; none is generated between 80% and 120%",
    "SCI: a DALI receive error is reported as a code-7 frame with error type 3 (the driver's own ErrorType table); frame layout on the receive side is the one the driver reads",
    "ATX hat: replies 'N' / 'Jxx', two result lines for a send-twice frame (what the driver waits for); collisions X/Z not modelled",
]
COMPONENTS = {
    "real": ["dali.driver.hid.tridonic/hasseb", "dali.driver.serial.DriverLubaRs232/DriverSCIRS232",
             "dali.driver.daliserver.DaliServer", "dali.driver.atxled.SyncDaliHatDriver", "asyncio (CPython)"],
    "stub": ["asyncio.wait_for of CPython 3.8-3.11 (transcribed, sim/legacy_asyncio.py) on ~25 % of the asyncio-driver runs", "VirtualLoop selector/clock", "os/glob/random (hid)", "serial_asyncio (serial)",
             "socket (daliserver)", "serial.Serial + time (atxled)", "gateway firmware, bus, units, other masters"],
}
PROBES = ["late-answer", "foreign-answer-before-own", "error-outcome", "silent-outcome", "value-outcome",
          "queries-in-flight-from-2-callers", "tridonic-quirk-fired", "sync-daliserver", "sync-atx"]

ENGINES = ("tridonic", "hasseb", "luba", "sci", "daliserver", "atx")


def _unique_outs(r, plan):
    """Re-draw answer values so that every value in the run is unique."""
    pool = list(range(1, 255))
    r.shuffle(pool)
    # the two ends of the value range are drawn first in most runs (0 is
    # falsy, 255 doubles as MASK / "framing error" in several protocols)
    ends = [v for v in (0, 255) if r.random() < 0.6]
    r.shuffle(ends)
    pool.extend(ends)
    for c in plan["callers"]:
        for op in c["ops"]:
            for k, o in list(op.get("outs", {}).items()):
                if o[0] in ("value", "error") and pool:
                    o[1] = pool.pop()
    for t in plan.get("traffic", []):
        if t.get("answer") and pool:
            t["answer"][1] = pool.pop()


def gen_plan(seed, tier="quick"):
    r = plans.rng_for(seed, PROP)
    eng = ENGINES[seed % 6]
    if eng in ("daliserver", "atx"):
        return syncsim.gen_plan(r, eng, seed, PROP)
    driver = eng
    plan = {"engine": "drvsim", "property": PROP, "driver": driver, "seed": seed,
            "knobs": plans.gen_knobs(r, driver, allow_batch=True),
            "callers": plans.gen_callers(r, driver, r.choice([1, 2, 2, 3]), 3,
                                         mix=(0.6, 0.15, 0.25), allow_raise=False,
                                         allow_cancel=False, parallel=0.08,
                                         # (cancellation on the gateway whose reports carry sequence numbers: a
                                         # cancelled caller's late report cannot reach anybody else there)
                                         # (and on hasseb, whose reports carry none: see hasseb_taint below)
                                         cancel_sends=(driver in ("tridonic", "hasseb")), start_on_event=0.2,
                                         cats=_cats(r, driver)),
            "traffic": [], "deadline_s": 600}
    if driver == "tridonic" and (seed // 6) % 60 == 17:
        # a long life of one driver object: commands without an answer first, then enough traffic for the
        # 8-bit sequence numbers to come round to theirs again
        lr = plans.rng_for(seed, PROP + "-long")
        ops = [plans.gen_send_op(lr, driver, ["plain16", "twice16", "dt_plain", "plain24"], 0.15) for _ in range(lr.randrange(1, 6))]
        ops += [plans.gen_send_op(lr, driver, ["query16", "query16", "plain16", "query24"], 0.1) for _ in range(270)]
        for op in ops:
            op["gap_us"] = 0
        plan["callers"] = [{"id": "A", "start_us": 0, "ops": ops}]
        plan["knobs"]["latency"] = "fast"
        plan["knobs"]["stalls"] = []
        plan["max_iterations"] = 2_000_000
        plan["deadline_s"] = 3000
    if driver in ("luba", "sci"):
        plan["knobs"]["answer_mode"] = r.choice(["intime", "intime", "mixed"])
    if driver != "hasseb" and r.random() < 0.5:
        for _ in range(r.randrange(1, 4)):
            q = cmds.gen_cmd(r, ["query16", "query24"] if driver != "hasseb" else ["query16"])
            plan["traffic"].append({"t_us": r.choice([0, 500, 5000, 20000, 60000, 150000]),
                                    "frames": [[q[0], q[1]]],
                                    "answer": r.choice([None, ["value", 0], ["value", 0], ["error", 0]])})
    if driver != "hasseb":
        # event messages of other bus units (every addressing scheme, fields on their
        # boundaries), also between one of our commands and its answer
        e = plans.rng_for(seed, PROP + "-events")
        for _ in range(e.choice([0, 0, 1, 2, 3])):
            b0 = e.choice([0x00, 0x02, 0x7E, 0x80, 0x82, 0xBE, 0xC0, 0xC2, 0xFC, e.randrange(256) & 0xFE])
            b1 = e.choice([0x00, 0x04, 0x7C, 0x80, 0x84, 0xFC, e.randrange(256)])
            plan["traffic"].append({"t_us": e.choice([0, 500, 5000, 20000, 60000, 150000, e.randrange(0, 300000)]),
                                    "frames": [[24, (b0 << 16) | (b1 << 8) | e.randrange(256)]], "answer": None})
        plan["traffic"].sort(key=lambda t: t["t_us"])
    _unique_outs(r, plan)
    if True:                                   # a second gateway of the same kind with its own driver object
        z = plans.rng_for(seed, PROP + "-line-b")
        if z.random() < 0.15:
            plan["second_line"] = plans.gen_second_line(z)
    return plan


def _cats(r, driver):
    c = plans.driver_cats(driver)
    if r.random() < 0.5:
        c = [x for x in c if "query" in x] or c
    return c


# ---------------------------------------------------------------------------
def judge_response(V, drv, u, cmd, out, result, late, all_values, serial, when=None):
    """Compare one returned value with what happened on the bus."""
    kind = out[0] if out else "silent"
    if cmd.response is None:
        if result is not None:
            V("non-query-returned-value", "unit %s: %s returned %r" % (u, cmd, result), site=kind)
        return
    if result is None:
        V("query-returned-none", "unit %s: %s returned None" % (u, cmd), site=kind)
        return
    if not isinstance(result, cmd.response):
        V("response-type", "unit %s: %s returned %s, expected %s (bus outcome %s)" % (
            u, cmd, type(result).__name__, cmd.response.__name__, kind), site=kind)
    raw = getattr(result, "raw_value", "missing")
    if raw == "missing":
        return
    if kind == "silent" or (kind == "error" and serial):
        if raw is not None:
            c = _who(raw, all_values, out)
            V(c, "unit %s: %s bus outcome %s but got %s" % (u, cmd, kind, raw),
              site=kind + ("/" + when(raw) if (when and c == "answer-of-other-command") else ""))
    elif kind == "value":
        if raw is None:
            if not late:
                V("answer-lost", "unit %s: %s bus answered %d in time but send returned 'no answer'" % (
                    u, cmd, out[1]), site=kind + ("/" + when(None) if when else ""))
        elif raw.error or raw.as_integer != out[1]:
            c = _who(raw, all_values, out)
            V(c, "unit %s: %s bus answered %d but got %s" % (u, cmd, out[1], raw),
              site=kind + ("/" + when(raw) if (when and c == "answer-of-other-command") else ""))
    elif kind == "error":
        if raw is None or not raw.error:
            V("framing-error-not-reported", "unit %s: %s garbled answer reported as %s" % (u, cmd, raw),
              site=kind)


def _who(raw, all_values, own):
    v = raw.as_integer
    if v in all_values and not (own and len(own) > 1 and own[1] == v):
        return "answer-of-other-command"
    return "wrong-answer"


def stale_site(rr, u, spec, raw, occurrence=0):
    """For the serial gateways: had the foreign value already reached the host
    when the victim's command was written (a flush at that moment would have
    removed it), or did it arrive afterwards (matching by arrival order only)?"""
    if raw is None:
        # answer lost: was an error frame that arrived between a write and its
        # confirmation taken for that confirmation (the SCI protocol gives the
        # driver nothing to tell them apart)?  The real confirmation then stays
        # behind and, if the next command is written before it arrives (i.e.
        # after that command's flush), shifts that one too: walk back along
        # such a chain.  An item that was already lying there when the victim's
        # chain started is different: the flush at the start of every send has
        # to remove it.
        sends = [s_ for s_ in rr.dev.sends if "t_us" in s_]
        errors = getattr(rr.dev, "foreign_errors", [])
        k, n = None, 0
        for i, s_ in enumerate(sends):
            if s_["unit"] == u and (s_.get("bits"), s_.get("value")) == (spec[0], spec[1]):
                if n <= occurrence:
                    k = i
                n += 1
        if k is None:
            return "plain"
        while True:
            s_ = sends[k]
            tc = s_.get("conf_arrival_us") or (s_["t_us"] + 200000)
            if any(s_["t_us"] <= t <= tc for t in errors):
                return "error-frame-taken-as-confirmation"
            if k == 0:
                break
            ptc = sends[k - 1].get("conf_arrival_us")
            if ptc is None or ptc < s_["t_us"]:
                break               # the predecessor's confirmation was there to be flushed / consumed
            k -= 1
        return "plain"
    arr = getattr(rr.dev, "answer_arrivals", {}).get(raw.as_integer)
    t_write = None
    k = 0
    for s_ in rr.dev.sends:
        if s_["unit"] == u and (s_.get("bits"), s_.get("value")) == (spec[0], spec[1]):
            # the same frame may occur several times in one unit: take the
            # write that belongs to this very command
            if k <= occurrence:
                t_write = s_["t_us"]
            k += 1
    if arr is None or t_write is None:
        return "unattributed"
    return "stale-before-write" if arr < t_write else "arrived-after-write"


def judge(rr):
    out = []
    plan = rr.plan
    drv = plan["driver"]
    serial = drv in ("luba", "sci")

    def V(clause, detail, site=None):
        out.append(Violation(PROP, clause, detail, driver=drv, site=site))

    if rr.connect_error is not None:
        V("connect-failed", repr(rr.connect_error))
        return out
    if serial and _slow_confirm(rr, drv):
        # the bus was so busy that a transmit confirmation came later than 80 %
        # of the documented confirmation timeout.  That is gateway silence at
        # confirmation time - C17's quantifier, not C16's; the stale
        # confirmation would touch every later operation, so the run is set aside
        rr.world.probe("run-set-aside-slow-confirm")
        return out
    if serial and any(s_.get("ambiguous") for s_ in rr.dev.sends):
        # batching moved an answer into the 80-120 % band of the receive timeout
        rr.world.probe("run-set-aside-ambiguous-answer-time")
        return out
    if rr.deadlock or rr.stepcap or rr.pending:
        V("send-never-returns", "deadlock=%s pending=%s" % (rr.deadlock, rr.pending))
    for c_, d_, s_ in drvsim.judge_second_line(rr):
        V(c_, d_, s_)
    all_values = set()
    for c in plan["callers"]:
        for op in c["ops"]:
            for o in op.get("outs", {}).values():
                if len(o) > 1:
                    all_values.add(o[1])
    for t in plan.get("traffic", []):
        if t.get("answer"):
            all_values.add(t["answer"][1])
    if drv == "hasseb":
        # hasseb reports say nothing about the command they belong to.  The report of a command whose
        # caller has given up (cancelled, timed out) is left over: if it reaches the host before the next
        # command is written, the driver has to drop it (and does); if it arrives after that write nothing
        # in the protocol tells it from the next command's own report - from there on answers are
        # shifted, whatever the driver does.  Those runs are reported under one signature of their own.
        gone = {u for u, rec in rr.ops.items() if rec.cancel_requested or rec.status in ("cancelled", "timeout")}
        sends = rr.dev.sends
        tainted = any(x.get("rep_arrival_us") is not None and x["unit"] in gone
                      and any(y["idx"] > x["idx"] and y["t_us"] <= x["rep_arrival_us"] for y in sends)
                      for x in sends)
        if gone:
            rr.world.probe("hasseb-caller-gave-up")
        if tainted:
            rr.world.probe("hasseb-leftover-report-after-next-write")
            V0 = V

            def V(clause, detail, site=None):                 # noqa: F811
                if clause in ("answer-of-other-command", "answer-lost", "wrong-answer", "framing-error-not-reported"):
                    clause, site = "answer-of-other-command", "leftover-report-arrived-after-next-write"
                V0(clause, detail, site)
    late_by = {}
    for s in rr.dev.sends:
        if "outcome" in s:
            late_by.setdefault((s["unit"], s.get("bits"), s.get("value")), []).append(bool(s.get("late")))
    for u, rec in rr.ops.items():
        specs = drvsim.op_cmd_specs(rec.op)
        if rec.status == "raised":
            V("send-raised", "unit %s (%s): %r" % (u, rec.op["kind"], rec.exc),
              site=type(rec.exc).__name__)
            if rec.op["kind"] == "send":
                continue
        if rec.op["kind"] == "send":
            results = [rec.result] if rec.status == "ok" else []
        else:
            results = list(rec.responses)
        seen = {}
        for spec, result in zip(specs, results):
            cmd = cmds.mk_cmd(spec)
            o = rec.op.get("outs", {}).get("%d:%d" % (spec[0], spec[1]))
            occ = seen.get((spec[0], spec[1]), 0)
            seen[(spec[0], spec[1])] = occ + 1
            lates = late_by.get((u, spec[0], spec[1]), [])
            late = lates[occ] if occ < len(lates) else (lates[-1] if lates else False)
            when = (lambda raw, u=u, spec=spec, occ=occ: stale_site(rr, u, spec, raw, occ)) if serial else None
            judge_response(V, drv, u, cmd, o, result, late, all_values, serial, when=when)
    return out


CONFIRM_LIMIT_US = {"luba": 1_000_000, "sci": 100_000}


def _slow_confirm(rr, drv):
    for s in rr.dev.sends:
        if s.get("conf_arrival_us") is not None \
                and s["conf_arrival_us"] - s["t_us"] > 0.8 * CONFIRM_LIMIT_US[drv]:
            return True
    return False


def run_plan(plan):
    if plan.get("engine") == "syncsim":
        return syncsim.run_plan_c16(plan, PROP, judge_response)
    rr = drvsim.run(plan)
    res = base_result(rr)
    w = rr.world
    kinds = set()
    nq = 0
    for c in plan["callers"]:
        for op in c["ops"]:
            for o in op.get("outs", {}).values():
                kinds.add(o[0])
                nq += 1
                w.probe(o[0] + "-outcome")
    res["nontrivial"] = overlap_nontrivial(rr) or len(kinds) >= 2
    if getattr(rr.dev, "late_answers", 0):
        w.probe("late-answer", rr.dev.late_answers)
    if getattr(rr.dev, "quirk_fired", 0):
        w.probe("tridonic-quirk-fired", rr.dev.quirk_fired)
    if overlap_nontrivial(rr) and nq >= 2:
        w.probe("queries-in-flight-from-2-callers")
    if plan.get("traffic") and any(t.get("answer") for t in plan["traffic"]):
        w.probe("foreign-answer-before-own")
    for v in judge(rr):
        add_violation(res, v)
    res["probes"] = dict(w.probes)
    if res["violations"]:
        res["plan"] = plan
    res["sample"] = {"seed": plan["seed"], "driver": plan["driver"],
                     "ops": [[(o["kind"], list(o.get("outs", {}).values())) for o in c["ops"]]
                             for c in plan["callers"]],
                     "traffic": plan.get("traffic")}
    return res


def run_seed(seed, tier):
    return [run_plan(gen_plan(seed, tier))]


def shrink(plan):
    if plan.get("engine") == "syncsim":
        return syncsim.shrink(plan)
    return plans.shrink(plan)
