"""C15 - async drivers keep transactions atomic and device-type prefixes
adjacent.  Engine: drvsim.  Oracle over the tagged wire log of the gateway
model plus end-of-run driver state."""
from sim import cmds, drvsim, plans
from sim.core import Violation
from sim.oracles import base_result, overlap_nontrivial
from sim.runner import add_violation, main

PROP = "C15"
LEVEL = "exploration"
TIERS = {
    "quick": {"seeds": 120000, "chunk": 500, "wall_s": 300, "shrink_s": 40},
    "thorough": {"seeds": 3000000, "chunk": 1000, "wall_s": 3000, "shrink_s": 120},
}
RULE = ("one seed -> one plan: driver (seed mod 4), 2-4 callers with exact start ties, "
        "1-4 units each (send / explicitly locked sends / run_sequence with sleep, progress, "
        "raise or cancellation), command mix over all categories, bus outcome per query, "
        "latency profile and buggify knobs; executed on the virtual loop. A run is non-trivial "
        "iff units of >= 2 different callers overlapped in time; distinct = distinct sequence of "
        "(event kind, actor) pairs of the simulator log.")
ASSUMPTIONS = [
    "gateway models (Tridonic DALI-USB, hasseb, LUBA, SCI) written from the protocol notes in the drivers; see DESIGN.md 2.5",
    "asyncio ready queue is FIFO and is not permuted (guaranteed by asyncio); only arrival times vary",
    "command objects come from the library's own decoder (C01/C02 not judged here)",
    "no gateway loss in this check (that is C17)",
]
COMPONENTS = {
    "real": ["dali.driver.hid.tridonic", "dali.driver.hid.hasseb",
             "dali.driver.serial.DriverLubaRs232", "dali.driver.serial.DriverSCIRS232",
             "asyncio Task/Lock/Event/Semaphore/Queue/wait_for (CPython)"],
    "stub": ["asyncio.wait_for of CPython 3.8-3.11 (transcribed, sim/legacy_asyncio.py) on ~25 % of the asyncio-driver runs", "event-loop selector and clock (VirtualLoop)", "os/glob/random in dali.driver.hid",
             "serial_asyncio in dali.driver.serial", "gateway firmware, DALI bus, bus units"],
}
PROBES = ["caller-started-on-an-event", "slow-confirmation-set-aside", "send-retried-after-reconnection", "progress-callback-raised", "parallel-sends-under-one-lock", "send-cancelled", "generator-misbehaves-on-close", "units-overlapped", "seq-raised", "seq-cancelled", "cancel-while-holding-lock",
          "lock-contended", "dt-command-sent", "locked-unit", "start-tie"]


def gen_plan(seed, tier="quick"):
    r = plans.rng_for(seed, PROP)
    driver = drvsim.DRIVERS[seed % 4]
    ncallers = r.choice([2, 2, 3, 3, 4])
    plan = {"engine": "drvsim", "property": PROP, "driver": driver, "seed": seed,
            "knobs": plans.gen_knobs(r, driver, allow_batch=True),
            "callers": plans.gen_callers(r, driver, ncallers, 3 if tier == "quick" else 4,
                                         cancel_sends=True, parallel=0.06, unsupported=0.04, connect_again=0.04, start_on_event=0.3),
            "deadline_s": 600}
    x = plans.rng_for(seed, PROP + "-retry")
    if driver in ("tridonic", "hasseb") and x.random() < 0.1:
        # the one gateway event that makes send() itself put frames on the wire a second time: a write
        # finds the device gone, it comes back, the command is retried (exceptions off) - prefix included
        if x.random() < 0.5:
            plan["callers"] = [{"id": c["id"], "start_us": c["start_us"],
                                "ops": [plans.gen_send_op(x, driver, [k for k in plans.driver_cats(driver) if k.startswith("dt_")]
                                                          if x.random() < 0.7 else None) for _ in range(x.randrange(1, 4))]}
                               for c in plan["callers"][:x.randrange(1, 4)]]
        else:
            # ... or in the middle of the ordinary mix: sequences and hand-locked transactions whose
            # commands are retried one by one, callers queued behind the one that waits for the
            # gateway, callers that give up while it is away
            plan["callers"] = plans.gen_callers(x, driver, x.choice([2, 3, 3, 4]), 3, cancel_sends=True,
                                                start_on_event=0.3)
            for c in plan["callers"]:
                for op in c["ops"]:
                    op.pop("exceptions", None)
        ops_ = [op for c in plan["callers"] for op in c["ops"] if op["kind"] in ("send", "seq", "locked")]
        if ops_ and x.random() < 0.5:
            op = x.choice(ops_)
            if op.get("cancel_after_us") is None and op.get("cancel_at_event") is None and op.get("timeout_us") is None:
                if x.random() < 0.5:
                    op["cancel_at_event"] = x.randrange(1, 14)
                else:
                    op["cancel_after_us"] = x.choice([1000, 20000, 30000, 60000, 90000, x.randrange(0, 150000)])
        plan["write_fault_at"] = [(2 if driver == "tridonic" else 0) + x.randrange(0, 6)]
        plan["knobs"]["exceptions_on_send"] = False
        plan["knobs"]["reconnect_interval"] = 0.05
        if driver == "tridonic" and x.random() < 0.05:
            # ... and a long life of the driver object afterwards: the 8-bit sequence numbers of the
            # gateway protocol come round to the one the interrupted command had
            ops = [plans.gen_send_op(x, driver, ["plain16", "query16", "dt_plain"], 0.1) for _ in range(x.randrange(1, 5))]
            many = [["cmd", cmds.gen_cmd(x, ["plain16", "query16"])] for _ in range(130)]
            ops += [{"kind": "seq", "items": many, "outs": {}, "gap_us": 0},
                    {"kind": "locked", "cmds": [cmds.gen_cmd(x, ["plain16", "query16"]) for _ in range(135)], "outs": {}, "gap_us": 0}]
            for op in ops:
                op["gap_us"] = 0
            plan["callers"] = [{"id": "A", "start_us": 0, "ops": ops}]
            plan["write_fault_at"] = [2 + x.randrange(0, len(ops) - 2 + 1)]
            plan["knobs"]["latency"] = "fast"
            plan["knobs"]["stalls"] = []
            plan["max_iterations"] = 2_000_000
            plan["deadline_s"] = 3000
    return plan


def judge(rr):
    out = []
    drv = rr.plan["driver"]
    plan = rr.plan

    def V(clause, detail, site=None, trigger=None):
        out.append(Violation(PROP, clause, detail, driver=drv, site=site, trigger=trigger))

    if rr.connect_error is not None:
        V("connect-failed", repr(rr.connect_error))
        return out
    if rr.deadlock or rr.stepcap or rr.pending:
        stuck = [u for u, o in rr.ops.items() if o.status in ("pending", "running")]
        V("caller-never-completes", "deadlock=%s stepcap=%s pending=%s stuck_units=%s" % (
            rr.deadlock, rr.stepcap, rr.pending, stuck),
          site=None)
    if rr.final.get("tx_lock"):
        V("transaction-lock-held-at-end", "transaction_lock still locked at quiescence")
    # wire log grouped by unit
    sends = [s for s in rr.dev.sends if "value" in s]
    order = []
    by_unit = {}
    segs = {}
    for s in sends:
        u = s["unit"]
        by_unit.setdefault(u, []).append((s["bits"], s["value"]))
        sg = segs.setdefault(u, [])
        if not sg or sg[-1][0] != s.get("gen", 0):
            sg.append((s.get("gen", 0), []))
        sg[-1][1].append((s["bits"], s["value"]))
        if not order or order[-1] != u:
            order.append(u)
    seen = set()
    for u in order:
        if u in seen:
            V("units-interleaved", "frames of unit %s are not contiguous on the wire: %s" % (
                u, order))
            break
        seen.add(u)
    for u in [u for u in segs if u is not None and len(segs[u]) > 1]:
        # the gateway went away under this unit (a write found it gone) and the unit went on over the
        # new connection: every command reaches the wire in order, the command that was cut short is
        # put out again from its beginning (device-type prefix included), nothing else is repeated
        groups = _groups(drvsim.op_cmd_specs(rr.ops[u].op), drv)
        pos, bad, normal = 0, None, []
        for gi, (gen_, fr) in enumerate(segs[u]):
            last = gi == len(segs[u]) - 1
            i = 0
            while pos < len(groups) and fr[i:i + len(groups[pos])] == groups[pos] and len(fr) - i >= len(groups[pos]):
                normal.extend(groups[pos])
                i += len(groups[pos])
                pos += 1
            rest = fr[i:]
            if last:
                normal.extend(rest)        # judged below like any unit: all of it, or a prefix if the unit was cut short
            elif pos >= len(groups) or len(rest) >= len(groups[pos]) or rest != groups[pos][:len(rest)]:
                bad = (gen_, fr)
                break
        if bad:
            V("unit-frames-differ", "unit %s: on connection #%d the wire carried %s; commands of the unit: %s" % (
                u, bad[0], _fmt(bad[1]), [_fmt(g) for g in groups]), site="interrupted-attempt")
            by_unit.pop(u, None)
        else:
            rr.world.probe("unit-carried-over-a-reconnect")
            by_unit[u] = normal
    if None in by_unit:
        V("untagged-frame", "frame written outside any caller unit: %s" % (by_unit[None],))
    for u, rec in rr.ops.items():
        if rec.status == "livelock":
            V("caller-never-completes", "unit %s (%s): the driver never returned to the event loop (%s)" % (
                u, rec.op["kind"], rec.exc), site="spins")
            continue
        if rec.op.get("unsupported"):
            # refused at once: an exception, nothing on the wire
            if rec.status != "raised" or by_unit.get(u):
                V("unsupported-frame-not-refused", "unit %s: %d-bit frame, exceptions=%r: %s, wire %s" % (
                    u, rec.op["cmd"][0], rec.op.get("exceptions"), rec.status, _fmt(by_unit.get(u, []))), site=drv)
            continue
        if rec.status == "raised" and rec.op.get("raise_at") is None and rec.op.get("progress_raise_at") is None \
                and not rec.op.get("bad_close") and not rec.cancel_requested \
                and not (plan.get("write_fault_at") and rec.op["kind"] == "seq"
                         and type(rec.exc).__name__ == "CommunicationError"):
            # (exceptions are off in the plans that lose the gateway: send() waits for it and does not
            # fail; run_sequence has no such option and reports the loss to its caller)
            # nothing in this world makes a caller fail: no gateway loss, no silent gateway, no planned exception
            slow = drv in ("luba", "sci") and any(
                s_.get("conf_arrival_us") is None or s_["conf_arrival_us"] - s_["t_us"] > 0.8 * {"luba": 1e6, "sci": 1e5}[drv]
                for s_ in rr.dev.sends if "t_us" in s_)
            if slow:
                rr.world.probe("slow-confirmation-set-aside")
            else:
                V("caller-fails-without-cause", "unit %s (%s) raised %r although gateway and bus were healthy" % (
                    u, rec.op["kind"], rec.exc), site=type(rec.exc).__name__)
        specs = drvsim.op_cmd_specs(rec.op)
        exp = cmds.expected_wire(specs)
        got = by_unit.get(u, [])
        if drv == "hasseb":
            exp = _hasseb_expand(specs)
        if rec.op.get("bad_close"):
            # a generator that yields from its finally clause: what it emits while an
            # exception unwinds it is its own business; contiguity, completion and
            # the lock are still judged
            pass
        elif rec.status == "ok":
            if got != exp:
                V(_classify(exp, got), "unit %s (%s): wire %s expected %s" % (
                    u, rec.op["kind"], _fmt(got), _fmt(exp)), site=rec.op["kind"])
        else:
            if got != exp[:len(got)]:
                V(_classify(exp, got, prefix=True), "unit %s (%s, %s): wire %s is not a prefix of %s" % (
                    u, rec.op["kind"], rec.status, _fmt(got), _fmt(exp)), site=rec.op["kind"])
        if rec.op["kind"] == "seq":
            # a generator that was never started (cancelled while run_sequence
            # still waited for the lock) has run no code and holds nothing:
            # GEN_CREATED is accepted, a started generator must be closed
            if rec.status in ("ok", "raised", "cancelled", "timeout") and rec.gen is not None \
                    and rec.gen_state not in ("GEN_CLOSED", "GEN_CREATED") and not rec.op.get("bad_close"):
                V("sequence-not-closed", "unit %s ended %s but generator is %s" % (
                    u, rec.status, rec.gen_state), site="run_sequence")
            ra = rec.op.get("raise_at")
            if ra is not None and rec.status == "ok":
                V("sequence-exception-lost", "unit %s: generator raised but run_sequence returned %r" % (
                    u, rec.result), site="run_sequence")
            pra = rec.op.get("progress_raise_at")
            if pra is not None and rec.status == "ok":
                V("progress-exception-lost", "unit %s: the progress callback raised at its call #%d but run_sequence "
                  "returned %r" % (u, pra, rec.result), site="run_sequence")
            if pra is not None and rec.status == "raised" and not isinstance(rec.exc, drvsim.ProgBoom) \
                    and rec.progress > pra and not rec.op.get("bad_close"):
                V("progress-exception-replaced", "unit %s: the progress callback raised ProgBoom, run_sequence raised %r" % (
                    u, rec.exc), site=type(rec.exc).__name__)
            if rec.status == "ok" and rec.result != "ret:" + u:
                V("sequence-result-lost", "unit %s returned %r" % (u, rec.result), site="run_sequence")
    return out


def _exp_until(op, ra, drv):
    specs = [it[1] for it in op["items"][:ra] if it[0] == "cmd"]
    return _hasseb_expand(specs) if drv == "hasseb" else cmds.expected_wire(specs)


def _groups(specs, drv):
    """The frames of each command of a unit, as the driver writes them."""
    return [(_hasseb_expand([sp]) if drv == "hasseb" else cmds.expected_wire([sp])) for sp in specs]


def _hasseb_expand(specs):
    """hasseb has no send-twice flag: the driver writes such frames twice."""
    out = []
    for s in specs:
        c = cmds.mk_cmd(s)
        if c.devicetype != 0:
            out.append((16, cmds.edt_frame(c.devicetype)))
        out.append((len(c.frame), c.frame.as_integer))
        if c.sendtwice:
            out.append((len(c.frame), c.frame.as_integer))
    return out


_EDTS = {(16, cmds.edt_frame(dt)) for dt in range(256)}


def _classify(exp, got, prefix=False):
    e = [f for f in exp if f not in _EDTS]
    g = [f for f in got if f not in _EDTS]
    if (e[:len(g)] if prefix else e) == g:
        return "device-type-prefix-wrong"
    return "unit-frames-differ"


def _fmt(fr):
    return ["%d:%04x" % f for f in fr]


def _stuck_site(rr, stuck):
    kinds = sorted({rr.ops[u].op["kind"] for u in stuck})
    return "+".join(kinds) or None


def run_plan(plan):
    hooks = {}
    if plan.get("write_fault_at"):
        def setup(rr_):
            rr_.dev.write_fault_at = set(plan["write_fault_at"])
            rr_.dev.return_delay_us = 50000
        hooks["setup"] = setup
    rr = drvsim.run(plan, hooks)
    if plan.get("write_fault_at") and getattr(rr.dev, "losses", None):
        rr.world.probe("send-retried-after-reconnection")
    res = base_result(rr)
    w = rr.world
    nt = overlap_nontrivial(rr)
    res["nontrivial"] = nt
    if nt:
        w.probe("units-overlapped")
    for u, rec in rr.ops.items():
        if rec.op.get("raise_at") is not None and rec.status == "raised":
            w.probe("seq-raised")
        if rec.status == "cancelled":
            w.probe("seq-cancelled" if rec.op["kind"] == "seq" else "op-cancelled")
            if any(s["unit"] == u for s in rr.dev.sends):
                w.probe("cancel-while-holding-lock")
        if rec.op["kind"] == "locked":
            w.probe("locked-unit")
        if rec.op["kind"] == "parallel":
            w.probe("parallel-sends-under-one-lock")
        if rec.op["kind"] in ("send", "locked") and rec.status == "cancelled":
            w.probe("send-cancelled")
        if rec.op.get("progress_raise_at") is not None and rec.status == "raised":
            w.probe("progress-callback-raised")
        if rec.op.get("bad_close") and rec.status in ("raised", "cancelled"):
            w.probe("generator-misbehaves-on-close")
        if any(cmds.mk_cmd(s).devicetype for s in drvsim.op_cmd_specs(rec.op)):
            w.probe("dt-command-sent")
    st = [c.get("start_us", 0) for c in plan["callers"]]
    if len(set(st)) < len(st):
        w.probe("start-tie")
    if any("L1" in s for s in w.states):
        w.probe("lock-contended")
    for v in judge(rr):
        add_violation(res, v)
    res["probes"] = dict(w.probes)
    if res["violations"]:
        res["plan"] = plan
    res["sample"] = {"seed": plan["seed"], "driver": plan["driver"],
                     "callers": [[o["kind"] for o in c["ops"]] for c in plan["callers"]],
                     "wire": ["%s:%d:%04x" % (s["unit"], s.get("bits", 0), s.get("value", 0))
                              for s in rr.dev.sends][:24]}
    return res


def run_seed(seed, tier):
    return [run_plan(gen_plan(seed, tier))]


shrink = plans.shrink

if __name__ == "__main__":
    import sys
    from sim.runner import ensure_hashseed
    ensure_hashseed()
    import checks.c15 as me
    sys.exit(main(me))
