"""C18 - bytes exchanged with each gateway follow that gateway's wire format.
Independent, table-driven referees per gateway (transcribed from the protocol
descriptions quoted in the drivers) judge every packet the nine drivers write:
the four asyncio drivers inside drvsim (also with two concurrent callers and
long runs for the sequence-number clauses), the blocking ones inside syncsim."""
import copy
from functools import reduce
from operator import xor

from sim import cmds, drvsim, plans, syncsim
from sim.core import Violation
from sim.oracles import base_result
from sim.runner import add_violation, new_result
from checks.c16 import judge_response

PROP = "C18"
LEVEL = "exploration"
TIERS = {
    "quick": {"seeds": 27000, "chunk": 300, "wall_s": 300, "shrink_s": 40},
    "thorough": {"seeds": 720000, "chunk": 900, "wall_s": 3000, "shrink_s": 120},
}
RULE = ("one seed -> one plan: driver = seed mod 9 (hid tridonic, hid hasseb, LUBA, SCI, daliserver, ATX hat, legacy "
        "Tridonic USB, legacy hasseb, UniPi); 8-40 commands drawn over all categories of the library (every concrete "
        "class is reachable) plus frames of unsupported length (8, 9-15, 17, 20, 25, 32 bits, 24 bits where the gateway "
        "is 16-bit only); every 40th plan of a driver with sequence numbers sends > 600 commands; async plans may have "
        "a second concurrent caller; the gateway model answers the first caller's queries with silence, a value (0, 255, ...) or a framing error and the returned response is compared with it. Every packet written is parsed by the referee and compared with the command's "
        "frame and flags. Non-trivial iff the run contained a send-twice command, a 24-bit command and a refusal, or "
        "a sequence-number wrap; distinct = distinct (event kind, actor) sequence plus command categories.")
ASSUMPTIONS = [
    "wire formats as quoted in the drivers: Tridonic 64-byte SEND (0x12, seq 1..255, ctrl 0x20 iff send-twice, mode 3/6, frame right-aligned in bytes 4-7, zero padding); hasseb 2 bytes written twice iff send-twice; LUBA 'Y',0x32,7,0,bits,mode,4 data bytes,XOR with priority 2 for DAPC and plain standard commands, 5 otherwise, bit 7 iff send-twice; SCI control byte (monitor, echo, send-twice bit, mode 3/8), three data bytes left-aligned, XOR; daliserver [2,0,a,c] sent twice iff send-twice; ATX h/t/l + upper-case hex + newline; legacy layouts from their docstrings",
    "SCI transmit layout of the pinned tree is taken as the assumed-correct one (vendor document not available offline)",
    "'refuses' = raises any exception before a byte reaches the gateway",
    "ATX: 8- and 25-bit frames are in the driver's own prefix table and are not treated as unsupported; what a 24-bit send-twice frame should look like is not documented and not judged",
]
COMPONENTS = {
    "real": ["dali.driver.hid.tridonic/hasseb", "dali.driver.serial LUBA/SCI send_dali_command", "dali.driver.daliserver.DaliServer.send",
             "dali.driver.atxled construct/send", "dali.driver.tridonic construct/_get_sn/send", "dali.driver.hasseb construct/send",
             "dali.driver.unipi construct/send"],
    "stub": ["asyncio.wait_for of CPython 3.8-3.11 (transcribed, sim/legacy_asyncio.py) on ~25 % of the asyncio-driver runs", "VirtualLoop, os, serial_asyncio, socket, serial.Serial, time", "usb / hid / pymodbus.client.sync modules", "gateway firmware"],
}
PROBES = ["reconnection-between-sends", "slow-confirmation-set-aside", "rx-table", "rx-value", "rx-silent", "rx-error", "seq-wrapped", "refused-unsupported-length", "send-twice-encoded", "24-bit-encoded", "concurrent-callers",
          "dt-prefix-emitted", "long-run-600"]

ENGINES = ("tridonic", "hasseb", "luba", "sci", "daliserver", "atx", "legacy-tridonic", "legacy-hasseb", "unipi")
SUPPORTS_24 = {"tridonic", "luba", "sci", "atx", "unipi"}
BAD_BITS = [8, 9, 12, 15, 17, 20, 25, 32]


def gen_plan(seed, tier="quick"):
    r = plans.rng_for(seed, PROP)
    eng = ENGINES[seed % 9]
    long_run = (seed // 9) % 40 == 7 and eng in ("tridonic", "legacy-tridonic", "legacy-hasseb", "hasseb")
    n = r.randrange(601, 640) if long_run else r.randrange(8, 41)
    cats = list(cmds.CATEGORIES)
    if eng not in SUPPORTS_24:
        cats16 = [c for c in cats if not c.endswith("24")]
    else:
        cats16 = cats
    if eng == "hasseb":
        cats16 = plans.driver_cats("hasseb")
    specs = []
    for _ in range(n):
        x = r.random()
        if x < 0.12 and not long_run:
            bits = r.choice(BAD_BITS + ([24] if eng not in SUPPORTS_24 else []))
            if eng == "atx" and bits in (8, 25):
                bits = 17
            if eng == "sci" and bits == 8:
                bits = 17
            specs.append([bits, r.getrandbits(bits), 0])
        elif x < 0.2:
            specs.append([16, r.getrandbits(16), 0 if eng == "hasseb" else r.choice([0, 0, 1, 6, 8])])
        else:
            specs.append(cmds.gen_cmd(r, cats16))
    if eng in ("tridonic", "hasseb", "luba", "sci"):
        plan = {"engine": "drvsim", "property": PROP, "driver": eng, "seed": seed,
                "knobs": plans.gen_knobs(r, eng, allow_batch=True), "deadline_s": 3000,
                "callers": [{"id": "A", "start_us": 0,
                             "ops": [{"kind": "send", "cmd": s, "outs": {}, "gap_us": 0} for s in specs]}]}
        plan["knobs"]["latency"] = "fast"
        # receive side: what the gateway reports back for each query (no answer,
        # every kind of value incl. 0 and 255, framing error) must decode to what it denotes
        x = plans.rng_for(seed, PROP + "-rx")
        for op in plan["callers"][0]["ops"]:
            sp = op["cmd"]
            if not long_run:
                # every public way in: send() with each form of the exceptions option (hid), run_sequence()
                y = x.random()
                if y < 0.15:
                    op["kind"], op["items"] = "seq", [["cmd", sp]]
                elif y < 0.45 and eng in ("tridonic", "hasseb"):
                    op["exceptions"] = x.choice([True, False, False])
            if supported(eng, sp[0]) and not long_run:
                o = plans.gen_outcome(x, cmds.mk_cmd(sp), p_error=0.2)
                if o and o[0] == "value":
                    o[1] = x.choice([0, 255, 1, 254, x.randrange(256), x.randrange(256)])
                plans.add_out(op["outs"], sp, o)
        if r.random() < 0.3 and not long_run:
            ops2 = [{"kind": "send", "cmd": cmds.gen_cmd(r, cats16), "outs": {}, "gap_us": 0}
                    for _ in range(r.randrange(1, 8))]
            plan["callers"].append({"id": "B", "start_us": r.choice([0, 1000, 30000]), "ops": ops2})
        plan["max_iterations"] = 2_000_000
        if eng == "tridonic" and not long_run and x.random() < 0.15:
            # a second gateway / driver object in the same process (same start of the sequence numbers)
            plan["second_line"] = plans.gen_second_line(x, lose=False)
        elif eng == "tridonic" and not long_run and x.random() < 0.12:
            # one write finds the gateway gone, it comes back, the driver reconnects and retries:
            # sequence numbers keep their rules across the two connections
            plan["write_fault_at"] = [3 + x.choice([0, 0, 0, 1, 2, 5])]       # (writes 0, 1 are the handshake)
            plan["knobs"]["exceptions_on_send"] = False
            plan["knobs"]["reconnect_interval"] = 0.05
            for op in plan["callers"][0]["ops"]:
                op.pop("exceptions", None)
                if op["kind"] == "seq":             # (run_sequence has no retry mode)
                    op["kind"] = "send"
                    del op["items"]
            plan["callers"] = plan["callers"][:1]
        return plan
    return {"engine": "syncsim", "property": PROP, "driver": eng, "seed": seed,
            "knobs": {"multi": r.random() < 0.5}, "cmds": specs}


# ---------------------------------------------------------------------------
# independent referees
def _is_special16(value):
    ab = value >> 8
    return (ab & 1) and 0xA1 <= ab <= 0xFB and not _is_addr(ab)


def _is_addr(ab):
    """short 0AAAAAAS, group 100GGGGS, broadcast 1111111S, unaddressed 1111110S"""
    return (ab >> 7) == 0 or (ab >> 5) == 0b100 or (ab | 1) in (0xFF, 0xFD)


def luba_priority(cmd):
    f = cmd.frame
    if len(f) != 16:
        return 5
    v = f.as_integer
    ab = v >> 8
    if not _is_addr(ab):
        return 5
    if not (ab & 1):
        return 2            # direct arc power control
    known = "Unknown" not in type(cmd).__name__
    if known and cmd.response is None and not cmd.sendtwice:
        return 2
    return 5


def expect_tridonic(cmd):
    f = cmd.frame
    mode = {16: 3, 24: 6}[len(f)]
    return {"cmd": 0x12, "ctrl": 0x20 if cmd.sendtwice else 0, "mode": mode,
            "frame4": f.as_integer.to_bytes(4, "big")}


def expect_luba(cmd):
    f = cmd.frame
    nb = len(f) // 8
    data = list(f.as_integer.to_bytes(nb, "big")) + [0] * (4 - nb)
    mode = luba_priority(cmd) | (0x80 if cmd.sendtwice else 0)
    body = [0x32, 7, 0, len(f), mode] + data
    return bytes([0x59] + body + [reduce(xor, body)])


def expect_sci(cmd):
    f = cmd.frame
    nb = len(f) // 8
    ctrl = 0x80 | 0x20 | (0x10 if cmd.sendtwice else 0) | {16: 3, 24: 8}[len(f)]
    body = [ctrl] + list(f.as_integer.to_bytes(nb, "big")) + [0] * (3 - nb)
    return bytes(body + [reduce(xor, body)])


def supported(eng, bits):
    if bits == 16:
        return True
    if bits == 24:
        return eng in SUPPORTS_24
    if eng == "atx" and bits in (8, 25):
        return None          # in the driver's own table: not judged
    if eng == "sci" and bits == 8:
        return None
    return False


# ---------------------------------------------------------------------------
_CONF_LIMIT_US = {"luba": 1_000_000, "sci": 100_000}


def judge_async(rr):
    out = []
    plan = rr.plan
    drv = plan["driver"]

    def V(clause, detail, site=None):
        out.append(Violation(PROP, clause, detail, driver=drv, site=site))

    if rr.connect_error is not None:
        V("connect-failed", repr(rr.connect_error))
        return out
    for e in rr.dev.referee_errors:
        V("malformed-packet", "referee: %s" % (e,), site=str(e[0]))
    for c_, d_, s_ in drvsim.judge_second_line(rr):
        V(c_, d_, s_)
    for e in getattr(getattr(rr, "devB", None), "referee_errors", []):
        V("malformed-packet", "referee (second gateway): %s" % (e,), site=str(e[0]))
    # a confirmation slower than 80 % of the serial drivers' timeout may shift the
    # confirmations / answers of everything after it (C16/C17's subject): the
    # receive-side comparison is then skipped for the run
    slow = drv in _CONF_LIMIT_US and any(
        s_.get("conf_arrival_us") is None or s_["conf_arrival_us"] - s_["t_us"] > 0.8 * _CONF_LIMIT_US[drv]
        for s_ in rr.dev.sends if "t_us" in s_)
    # batched delivery may push an answer past the receive time-out; a late answer reaches whoever
    # asks next (the serial gateways' arrival-order matching, a known C16 finding): no receive-side
    # comparison in such a run
    late_somewhere = drv in _CONF_LIMIT_US and any(s_.get("late") or s_.get("ambiguous") for s_ in rr.dev.sends)
    # what each unit asked for
    want = {}
    for u, rec in rr.ops.items():
        spec = rec.op["cmd"]
        want[u] = (spec, cmds.mk_cmd(spec), rec)
    by_unit = {}
    for s in rr.dev.sends:
        by_unit.setdefault(s["unit"], []).append(s)
    for u, (spec, cmd, rec) in want.items():
        sup = supported(drv, spec[0])
        recs = by_unit.get(u, [])
        if sup is False:
            if recs:
                V("unsupported-length-not-refused", "unit %s: %d-bit frame %x reached the gateway as %s" % (
                    u, spec[0], spec[1], [r_["raw"].hex() for r_ in recs][:2]), site="octet-multiple" if spec[0] % 8 == 0 else "partial-octet")
            elif rec.status != "raised":
                V("unsupported-length-not-refused", "unit %s: %s of a %d-bit frame (exceptions=%r): %s %r" % (
                    u, "run_sequence" if rec.op["kind"] == "seq" else "send", spec[0], rec.op.get("exceptions"),
                    rec.status, rec.result), site="spins" if rec.status == "livelock" else
                  ("octet-multiple" if spec[0] % 8 == 0 else "partial-octet"))
            else:
                rr.world.probe("refused-unsupported-length")
            continue
        if sup is None:
            continue
        if rec.status == "raised" and drv in ("luba", "sci") and type(rec.exc).__name__ == "TimeoutError" \
                and any(s_.get("conf_arrival_us") is None or s_["conf_arrival_us"] - s_["t_us"] > 0.8 * _CONF_LIMIT_US[drv]
                        for s_ in recs):
            # a 24-bit send-twice frame behind a busy bus: the confirmation comes
            # later than the driver's confirmation timeout - timing, judged by C17
            rr.world.probe("slow-confirmation-set-aside")
            continue
        if rec.status != "ok":
            V("send-failed", "unit %s %s: %s %r" % (u, cmd, rec.status, rec.exc),
              site=type(rec.exc).__name__ if rec.exc else rec.status)
            continue
        fv = (len(cmd.frame), cmd.frame.as_integer)
        mine = [r_ for r_ in recs if (r_.get("bits"), r_.get("value")) == fv]
        others = [r_ for r_ in recs if (r_.get("bits"), r_.get("value")) != fv]
        edt = (16, cmds.edt_frame(cmd.devicetype)) if cmd.devicetype else None
        for o in others:
            if edt and (o.get("bits"), o.get("value")) == edt:
                rr.world.probe("dt-prefix-emitted")
                _check_packet(V, drv, o, cmds.mk_cmd([16, edt[1], 0]), u)
            else:
                V("unrequested-frame", "unit %s (%s, frame %d:%x) put %s on the wire" % (
                    u, cmd, fv[0], fv[1], o["raw"].hex()), site="%d-bit" % fv[0])
        need = 2 if (drv == "hasseb" and cmd.sendtwice) else 1
        if len(mine) != need:
            V("frame-count", "unit %s (%s): %d packets carry its frame, expected %d" % (
                u, cmd, len(mine), need), site="twice" if cmd.sendtwice else "once")
            continue
        for m in mine:
            _check_packet(V, drv, m, cmd, u)
        if cmd.sendtwice:
            rr.world.probe("send-twice-encoded")
        if len(cmd.frame) == 24:
            rr.world.probe("24-bit-encoded")
        o = rec.op.get("outs", {}).get("%d:%d" % (spec[0], spec[1]))
        if o is not None and u.startswith("A.") and not slow and not late_somewhere:
            rr.world.probe("rx-" + o[0])
            result = rec.result if rec.op["kind"] == "send" else (rec.responses[0] if rec.responses else None)
            judge_response(lambda c_, d_, site=None: V("rx-" + c_, d_, site=site), drv, u, cmd, o, result,
                           False, set(), drv in ("luba", "sci"))
    if drv == "tridonic":
        seqs = [s["seq"] for s in rr.dev.sends]
        for a, b in zip(seqs, seqs[1:]):
            if a == b:
                V("sequence-number-repeated", "seq %d used twice in a row" % a)
                break
            if b != (a % 255) + 1 and not (plan.get("write_fault_at") and b == ((a % 255) + 1) % 255 + 1):
                # (a write that failed had taken a number with it: one may be skipped across a reconnection)
                V("sequence-number-order", "seq %d followed by %d" % (a, b))
                break
        if any(b < a for a, b in zip(seqs, seqs[1:])):
            rr.world.probe("seq-wrapped")
    return out


def _check_packet(V, drv, rec, cmd, u):
    raw = rec["raw"]
    if drv == "tridonic":
        e = expect_tridonic(cmd)
        got = {"cmd": raw[0], "ctrl": raw[2], "mode": raw[3], "frame4": raw[4:8]}
        for k in e:
            if e[k] != got[k]:
                V("field-" + k, "unit %s %s: %s is %r, protocol says %r (packet %s)" % (
                    u, cmd, k, got[k], e[k], raw[:12].hex()), site="twice" if cmd.sendtwice else "%d-bit" % len(cmd.frame))
        if len(raw) != 64 or any(raw[8:]):
            V("padding", "unit %s: packet %s" % (u, raw.hex()))
        if not 1 <= raw[1] <= 255:
            V("sequence-number-range", "seq %d" % raw[1])
    elif drv == "hasseb":
        if raw != cmd.frame.as_integer.to_bytes(2, "big"):
            V("field-frame", "unit %s %s: wrote %s" % (u, cmd, raw.hex()))
    elif drv == "luba":
        e = expect_luba(cmd)
        if raw != e:
            k = "priority" if raw[:5] == e[:5] and (raw[5] & 0x80) == (e[5] & 0x80) and raw[6:10] == e[6:10] else \
                ("send-twice-flag" if (raw[5] & 0x80) != (e[5] & 0x80) else "frame")
            V("field-" + k, "unit %s %s: wrote %s, protocol says %s" % (u, cmd, raw.hex(), e.hex()),
              site="twice" if cmd.sendtwice else "%d-bit" % len(cmd.frame))
    elif drv == "sci":
        e = expect_sci(cmd)
        if raw != e:
            V("field-frame", "unit %s %s: wrote %s, protocol says %s" % (u, cmd, raw.hex(), e.hex()),
              site="twice" if cmd.sendtwice else "%d-bit" % len(cmd.frame))


# ---------------------------------------------------------------------------
def judge_sync(plan, world, results):
    out = []
    drv = plan["driver"]

    def V(clause, detail, site=None):
        out.append(Violation(PROP, clause, detail, driver=drv, site=site))

    last_sn = None
    wrapped = False
    for spec, st, val, pk in results:
        cmd = cmds.mk_cmd(spec)
        bits = spec[0]
        sup = supported(drv, bits)
        if sup is False:
            if pk:
                V("unsupported-length-not-refused", "%d-bit frame %x was written as %s" % (
                    bits, spec[1], [_hx(p) for p in pk][:2]), site="octet-multiple" if bits % 8 == 0 else "partial-octet")
            elif st != "raised":
                V("unsupported-length-not-refused", "send of a %d-bit frame returned %r" % (bits, val),
                  site="octet-multiple" if bits % 8 == 0 else "partial-octet")
            else:
                world.probe("refused-unsupported-length")
            continue
        if sup is None:
            continue
        if st != "ok":
            V("send-failed", "%s: %r" % (cmd, val), site=type(val).__name__)
            continue
        if drv == "daliserver" and spec[2] == 0:
            # receive side: the server's reply to *this* request, decoded for this command
            exp_v = syncsim.c18_answer(spec[1]) if cmd.response is not None else None
            raw = getattr(val, "raw_value", None)
            if (exp_v is None and val is not None) or \
                    (exp_v is not None and (raw is None or raw.error or raw.as_integer != exp_v)):
                V("rx-wrong-answer", "%s: the server answered %s to this request, send returned %s" % (
                    cmd, exp_v, raw if val is not None else None), site="multi" if plan["knobs"].get("multi") else "single")
            world.probe("rx-value" if exp_v is not None else "rx-none")
        f = cmd.frame
        fb = f.as_integer.to_bytes(bits // 8, "big")
        tw = cmd.sendtwice
        if tw:
            world.probe("send-twice-encoded")
        if bits == 24:
            world.probe("24-bit-encoded")
        if drv == "daliserver":
            e = [bytes([2, 0]) + fb] * (2 if tw else 1)
            if pk != e:
                V("field-frame", "%s: wrote %s, protocol says %s" % (cmd, [_hx(p) for p in pk], [_hx(p) for p in e]),
                  site="twice" if tw else "once")
        elif drv == "atx":
            if bits == 24 and tw:
                continue
            prefix = {16: "t" if tw else "h", 24: "l"}[bits]
            e = [(prefix + fb.hex().upper()).encode("ascii")]
            if pk != e:
                V("field-frame", "%s: wrote %s, protocol says %s" % (cmd, pk, e), site="twice" if tw else "once")
        elif drv == "legacy-tridonic":
            if len(pk) != 1 or len(pk[0]) != 64:
                V("packet-count-or-size", "%s: wrote %s" % (cmd, [_hx(p) for p in pk]))
                continue
            p = pk[0]
            sn = p[1]
            e = bytes([0x12, sn, 0, 0x03, 0, 0, fb[0], fb[1]]) + bytes(56)
            if p != e:
                V("field-frame", "%s: wrote %s, docstring layout %s" % (cmd, p[:10].hex(), e[:10].hex()))
            last_sn, wrapped = _sn(V, sn, last_sn, wrapped, world)
        elif drv == "legacy-hasseb":
            if len(pk) != 1 or len(pk[0]) != 10:
                V("packet-count-or-size", "%s: wrote %s" % (cmd, [_hx(p) for p in pk]))
                continue
            p = pk[0]
            sn = p[2]
            e = bytes([0xAA, 0x07, sn, 16, 1 if cmd.response is not None else 0, 0, 10 if tw else 0, fb[0], fb[1], 0])
            if p != e:
                V("field-frame", "%s: wrote %s, layout %s" % (cmd, p.hex(), e.hex()), site="twice" if tw else "once")
            last_sn, wrapped = _sn(V, sn, last_sn, wrapped, world)
        elif drv == "unipi":
            opt = (2 if bits == 16 else 3) | (8 if tw else 0)
            if bits == 16:
                e = (opt << 8, (fb[0] << 8) | fb[1])
            else:
                e = ((opt << 8) | fb[0], (fb[1] << 8) | fb[2])
            regs = [p for p in pk]
            if not regs or any(rg != (13, e) for rg in regs):
                V("field-frame", "%s: wrote registers %s, docstring layout %s" % (cmd, regs, (13, e)),
                  site="twice" if tw else "once")
    return out


def judge_rx(plan, world):
    """Receive direction of the blocking drivers: every well-formed gateway
    packet type / status code is decoded as the protocol notes say."""
    import dali.frame as fr
    out = []
    drv = plan["driver"]
    r = plans.rng_for(plan["seed"], PROP + "-rx")

    def V(detail, site):
        out.append(Violation(PROP, "rx-decoding", detail, driver=drv, site=site))

    def same(got, exp):
        if exp is None:
            return got is None
        if isinstance(exp, str):
            return type(got).__name__ == exp or repr(got) == exp
        return type(got) is type(exp) and got == exp and got.error == exp.error

    if drv == "legacy-tridonic":
        import dali.driver.tridonic as m
        d = object.__new__(m.SyncTridonicDALIUSBDriver)
        for dr in (0x11, 0x12, r.randrange(256)):
            for ty in (0x71, 0x72, 0x73, 0x74, 0x76, 0x77, r.randrange(256)):
                ad, cm = r.randrange(256), r.randrange(256)
                data = bytes([dr, ty, 0, 0, ad, cm, 0, 0, r.randrange(256)]) + bytes(55)
                if dr == 0x11 and ty in (0x73, 0x74):
                    exp = fr.ForwardFrame(16, [ad, cm])
                elif dr == 0x12 and ty == 0x71:
                    exp = "TridonicDALIUSBNoResponse"
                elif dr == 0x12 and ty == 0x72:
                    exp = fr.BackwardFrame(cm)
                else:
                    exp = None
                try:
                    got = d.extract(data)
                except Exception as e:          # noqa: BLE001
                    V("extract(%s) raised %r" % (data[:9].hex(), e), "%02x/%02x" % (dr, ty))
                    continue
                if not same(got, exp):
                    V("extract(%s) -> %r, docstring says %r" % (data[:9].hex(), got, exp), "%02x/%02x" % (min(dr, 0x13), ty))
        world.probe("rx-table")
    elif drv == "unipi":
        import dali.driver.unipi as m
        d = object.__new__(m.SyncUnipiDALIDriver)
        for code in (0x100, 0x200, 0, 0x300, r.randrange(65536)):
            v = r.randrange(65536)
            if code == 0x100:
                v &= 0xFF
                exp = fr.BackwardFrame(v)
            elif code == 0x200:
                exp = fr.ForwardFrame(16, [v >> 8, v & 0xFF])
            else:
                exp = "NO_RESPONSE"
            try:
                got = d.extract((code, v))
            except Exception as e:              # noqa: BLE001
                V("extract((%#x, %#x)) raised %r" % (code, v, e), "%#x" % code)
                continue
            if not same(got, exp):
                V("extract((%#x, %#x)) -> %r, expected %r" % (code, v, got, exp), "%#x" % code)
        world.probe("rx-table")
    elif drv == "legacy-hasseb":
        import dali.driver.hasseb as m
        d = object.__new__(m.SyncHassebDALIUSBDriver)
        names = {1: "HassebDALIUSBNoAnswer", 4: "HassebDALIUSBAnswerTooEarly",
                 5: "HassebDALIUSBSnifferByte", 6: "HassebDALIUSBSnifferByteError"}
        for status in (1, 2, 3, 4, 5, 6):
            v = r.randrange(256)
            data = [0xAA, 0x07, r.randrange(256), status, 1, v, 0, 0, 0, 0]
            if status == 2:
                exp = fr.BackwardFrame(v)
            elif status == 3:
                exp = fr.BackwardFrameError(255)
            else:
                exp = names[status]
            try:
                got = d.extract(data)
            except Exception as e:              # noqa: BLE001
                V("extract(%s) raised %r" % (data, e), "status-%d" % status)
                continue
            if not same(got, exp):
                V("extract(%s) -> %r, expected %r" % (data, got, exp), "status-%d" % status)
        got = d.extract([0xAA, 0, 0, 0, 0, 0, 0, 0, 0, 0])
        if type(got).__name__ != "HassebDALIUSBNoDataAvailable":
            V("extract(no data) -> %r" % (got,), "no-data")
        world.probe("rx-table")
    elif drv == "atx":
        import dali.driver.atxled as m
        d = object.__new__(m.SyncDaliHatDriver)
        import logging
        d.LOG = logging.getLogger("verif-atx")
        v = r.randrange(256)
        for line, exp in (("J%02X\n" % v, fr.BackwardFrame(v)), ("J%02x" % v, fr.BackwardFrame(v)),
                          ("N\n", None), ("", None)):
            try:
                got = d.extract(line)
            except Exception as e:              # noqa: BLE001
                V("extract(%r) raised %r" % (line, e), line[:1] or "empty")
                continue
            if not same(got, exp):
                V("extract(%r) -> %r, expected %r" % (line, got, exp), line[:1] or "empty")
        world.probe("rx-table")
    elif drv == "daliserver":
        import dali.driver.daliserver as m
        from dali.exceptions import CommunicationError
        d = m.DaliServer("sim", 1)
        q = cmds.mk_cmd(cmds.gen_cmd(r, ["query16"]))
        nq = cmds.mk_cmd(cmds.gen_cmd(r, ["plain16", "twice16"]))
        v = r.randrange(256)
        for status in (0, 1, 255, r.randrange(2, 255)):
            res = bytes([2, status, v, 0])
            try:
                got = d.unpack_response(q, res)
            except CommunicationError:
                if status in (0, 1, 255):
                    V("unpack_response(status %d) raised CommunicationError" % status, "status-%d" % status)
                continue
            except Exception as e:              # noqa: BLE001
                V("unpack_response(status %d) raised %r" % (status, e), "status-%d" % status)
                continue
            if status not in (0, 1, 255):
                V("unpack_response(status %d) returned %r instead of failing" % (status, got), "status-other")
                continue
            raw = got.raw_value if got is not None else "none"
            ok = isinstance(got, q.response) and (
                (status == 0 and raw is None) or
                (status == 1 and raw is not None and not raw.error and raw.as_integer == v) or
                (status == 255 and raw is not None and raw.error))
            if not ok:
                V("unpack_response(%s, status %d, value %d) -> %r / %r" % (q, status, v, got, raw), "status-%d" % status)
        if d.unpack_response(nq, bytes([2, 0, 0, 0])) is not None:
            V("unpack_response for a command without answer returned a value", "non-query")
        world.probe("rx-table")
    return out


def _sn(V, sn, last, wrapped, world):
    if not 1 <= sn <= 255:
        V("sequence-number-range", "sequence number %d" % sn)
    if last is not None:
        if sn == last:
            V("sequence-number-repeated", "sequence number %d used twice in a row" % sn)
        if sn < last:
            wrapped = True
            world.probe("seq-wrapped")
    return sn, wrapped


def _hx(p):
    return p.hex() if isinstance(p, (bytes, bytearray)) else p


# ---------------------------------------------------------------------------
def run_plan(plan):
    if plan["engine"] == "syncsim":
        world, results = syncsim.execute_c18(plan)
        res = new_result()
        for v in judge_sync(plan, world, results) + judge_rx(plan, world):
            add_violation(res, v)
        cats = sorted({cmds.category(cmds.mk_cmd(s)) for s in plan["cmds"]})
        res["digest"] = world.log.digest()
        res["shape"] = world.log.shape() + "|" + ",".join(cats)
        res["vtime_s"] = world.clock.t
        res["events"] = len(world.log)
        res["probes"] = dict(world.probes)
        if len(plan["cmds"]) > 600:
            res["probes"]["long-run-600"] = 1
        res["nontrivial"] = bool(world.probes)
        if res["violations"]:
            res["plan"] = plan
        res["sample"] = {"seed": plan["seed"], "driver": plan["driver"],
                         "cmds": [str(cmds.mk_cmd(s)) for s in plan["cmds"][:6]],
                         "written": [[_hx(p) for p in r[3]] for r in results[:6]]}
        return res
    hooks = {}
    if plan.get("write_fault_at"):
        def setup(rr_):
            rr_.dev.write_fault_at = set(plan["write_fault_at"])
            rr_.dev.return_delay_us = 50000
        hooks["setup"] = setup
    rr = drvsim.run(plan, hooks)
    if plan.get("write_fault_at") and getattr(rr.dev, "losses", None):
        rr.world.probe("reconnection-between-sends")
    res = base_result(rr)
    for v in judge_async(rr):
        add_violation(res, v)
    if len(plan["callers"]) > 1:
        rr.world.probe("concurrent-callers")
    if len(plan["callers"][0]["ops"]) > 600:
        rr.world.probe("long-run-600")
    res["probes"] = dict(rr.world.probes)
    res["nontrivial"] = bool(rr.world.probes)
    cats = sorted({cmds.category(cmds.mk_cmd(o["cmd"])) for c in plan["callers"] for o in c["ops"]})
    res["shape"] = res["shape"] + "|" + ",".join(cats)
    if res["violations"]:
        res["plan"] = plan
    res["sample"] = {"seed": plan["seed"], "driver": plan["driver"],
                     "cmds": [str(cmds.mk_cmd(o["cmd"])) for o in plan["callers"][0]["ops"][:6]],
                     "written": [s["raw"][:12].hex() for s in rr.dev.sends[:8]]}
    return res


def run_seed(seed, tier):
    return [run_plan(gen_plan(seed, tier))]


def shrink(plan):
    if plan["engine"] == "syncsim":
        n = len(plan["cmds"])
        if n > 8:
            for lo, hi in ((0, n // 2), (n // 2, n)):
                p = copy.deepcopy(plan)
                p["cmds"] = p["cmds"][lo:hi]
                yield p
        for i in range(n):
            if n > 1:
                p = copy.deepcopy(plan)
                del p["cmds"][i]
                yield p
        return
    ops = plan["callers"][0]["ops"]
    n = len(ops)
    if n > 8:
        for lo, hi in ((0, n // 2), (n // 2, n)):
            p = copy.deepcopy(plan)
            p["callers"][0]["ops"] = p["callers"][0]["ops"][lo:hi]
            yield p
    yield from plans.shrink(plan)
