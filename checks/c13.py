"""C13 - control-device sequences move multi-byte settings and scan results
intact.  Engine busim: SetEventSchemes / SetEventFilters / QueryEventFilters /
query_input_value / DeviceInstanceTypeMapper.autodiscover stepped against
IEC 62386-103 control-device models."""
import copy
from enum import IntFlag

from dali.address import DeviceShort, InstanceNumber
from dali.device import general as dg
from dali.device import light, occupancy, pushbutton
from dali.device.helpers import DeviceInstanceTypeMapper
from dali.device.sequences import QueryEventFilters, SetEventFilters, SetEventSchemes, query_input_value
from dali.exceptions import DALISequenceError

from sim import busim, plans
from sim.core import EventLog, Violation
from sim.runner import add_violation, new_result

PROP = "C13"
LEVEL = "exploration"
TIERS = {
    "quick": {"seeds": 300000, "chunk": 1500, "wall_s": 300, "shrink_s": 30},
    "thorough": {"seeds": 9000000, "chunk": 10000, "wall_s": 3000, "shrink_s": 120},
}
RULE = ("one seed -> one scenario (kind = seed mod 5): input value with resolution 1-32 (given or queried) and a sensor "
        "that may change between the byte reads; SetEventFilters / QueryEventFilters with the library's 8-bit filter "
        "enums, harness-defined 16- and 24-bit enums and plain ints against instances of matching width with stale DTR "
        "contents; SetEventSchemes with all five schemes and invalid ones; autodiscover over a bus of 0-64 control devices "
        "with arbitrary status bits, 0-32 instances, enabled flags and types, two devices on one address; each optionally "
        "with silence or a framing error at a seeded command index. Non-trivial iff >= 3 commands were exchanged and the "
        "unit state was non-default or a fault fired; distinct = distinct (command, outcome) sequence.")
ASSUMPTIONS = [
    "control-device model per DESIGN.md appendix A.3: SET EVENT FILTER takes DTR2:DTR1:DTR0 masked to the instance type's filter width; SET EVENT SCHEME takes DTR0 if 0..4; QUERY INPUT VALUE latches the MSB-aligned value (unused low bits repeat the MSBs) and QUERY INPUT VALUE LATCH returns the following bytes; QUERY EVENT FILTER M/H answer only for instance types with a 16/24-bit filter",
    "a device in reset state or reporting 'short address is mask' is not recorded by the scan (the sequence's documented skip)",
]
COMPONENTS = {"real": ["dali.device.sequences.*", "dali.device.helpers.check_bad_rsp / DeviceInstanceTypeMapper.autodiscover",
                       "dali.device.general command classes, responses, InstanceEventFilter"],
              "stub": ["bus and control devices (sim/busim.py)", "driver"]}
PROBES = ["unit-filter-with-unnamed-bits", "instance-implements-part-of-the-filter", "mapper-preloaded-with-stale-entries", "earlier-calls-in-same-process", "filter-24-bit", "filter-16-bit", "filter-8-bit", "filter-plain-int", "stale-dtr", "resolution-not-multiple-of-8",
          "resolution-over-24", "sensor-changed-between-reads", "scheme-invalid", "scan-collision", "scan-reset-state",
          "scan-disabled-instance", "scan-fault", "answer-dropped", "answer-garbled", "scan-64-devices"]


class Filter16(dg.InstanceEventFilter):
    b0 = 1 << 0
    b1 = 1 << 1
    b2 = 1 << 2
    b3 = 1 << 3
    b4 = 1 << 4
    b5 = 1 << 5
    b6 = 1 << 6
    b7 = 1 << 7
    b8 = 1 << 8
    b9 = 1 << 9
    b10 = 1 << 10
    b11 = 1 << 11
    b15 = 1 << 15


class Filter24(dg.InstanceEventFilter):
    pass


Filter24 = dg.InstanceEventFilter("Filter24", {("f%d" % i): 1 << i for i in range(24) if i not in (5, 13, 21)})
FILTERS = {"pushbutton": (pushbutton.InstanceEventFilter, 1, 8), "occupancy": (occupancy.InstanceEventFilter, 3, 8),
           "light": (light.InstanceEventFilter, 4, 8), "f16": (Filter16, 20, 16), "f24": (Filter24, 21, 24)}


def _dyn_filter(n):
    return dg.InstanceEventFilter("UserFilter", {("f%d" % i): 1 << i for i in range(n)})


def _bits_of(cls):
    m = 0
    for f in cls:
        m |= int(f)
    return m


def gen_plan(seed, tier="quick"):
    r = plans.rng_for(seed, PROP)
    kind = ("input", "setfilter", "queryfilter", "scheme", "scan")[seed % 5]
    plan = {"engine": "busim", "property": PROP, "seed": seed, "kind": kind, "fault": None,
            "dtr": [r.randrange(256) for _ in range(3)], "addr": r.randrange(64), "inst": r.randrange(32)}
    if r.random() < 0.3:
        plan["fault"] = [r.randrange(0, 10 if kind != "scan" else 60), r.choice(["drop", "garble", "garble", "garble-same"])]
    mf = plans.rng_for(seed, PROP + "-burst")
    if kind == "scan" and plan["fault"] and mf.random() < 0.4:
        # a bad stretch on the bus: several answers in a row (or every other one) lost or garbled - each
        # costs the item it concerns and nothing else
        at, extra = plan["fault"][0], []
        for _ in range(mf.randrange(1, 7)):
            at += mf.choice([1, 1, 2, 2, 3])
            extra.append([at, mf.choice(["drop", "garble", "garble-same"])])
        plan["more_faults"] = extra
    if kind == "input":
        res_ = r.choice([1, 2, 7, 8, 9, 10, 12, 15, 16, 17, 20, 23, 24, 25, 31, 32, r.randrange(1, 33)])
        plan["resolution"] = res_
        mask = (1 << res_) - 1
        plan["value"] = r.choice([0, mask, 1, 1 << (res_ - 1), r.getrandbits(res_), r.getrandbits(res_)]) & mask
        plan["given"] = r.random() < 0.5
        plan["arg_form"] = plans.rng_for(seed, PROP + "-forms").choice(["objects", "objects", "ints", "int-device", "int-instance"])
        plan["change_at"] = r.choice([None, None, 1, 2, 3, 4])
        plan["new_value"] = r.getrandbits(res_)
    elif kind in ("setfilter", "queryfilter"):
        fam = r.choice(["pushbutton", "occupancy", "light", "f16", "f16", "f24", "f24", "int", "dyn", "dyn"])
        plan["family"] = fam
        if fam == "int":
            plan["filter"] = r.getrandbits(8)
            plan["itype"] = r.choice([1, 3, 4])
        elif fam == "dyn":
            # an application-defined filter enum built at run time (functional API),
            # always under the same name; earlier ones of other sizes may have been used before
            plan["dyn_n"] = r.choice([1, 3, 5, 8, 9, 12, 16, 17, 20, 24])
            plan["filter"] = r.getrandbits(plan["dyn_n"])
            plan["itype"] = 2 if plan["dyn_n"] <= 8 else (20 if plan["dyn_n"] <= 16 else 21)   # unit's filter width to match
            plan["prelude_dyn"] = [r.choice([1, 5, 8, 9, 16, 17, 24]) for _ in range(r.choice([0, 1, 1, 2]))]
        else:
            cls, itype, width = FILTERS[fam]
            plan["filter"] = r.getrandbits(24) & _bits_of(cls)
            plan["itype"] = itype
        plan["old_filter"] = r.getrandbits(24)
        pm = plans.rng_for(seed, PROP + "-partial")
        if kind == "queryfilter" and pm.random() < 0.35:
            plan["unit_bits"] = pm.choice([0xFFFFFF, 0xFFFFFF, pm.getrandbits(24), pm.getrandbits(24), 0x800000, 0x008080])
        if kind == "setfilter" and pm.random() < 0.3:
            # an instance that implements only some of the filter bits: what it reports back differs
            # from what was asked for, and the sequence returns what the unit reports
            plan["impl_mask"] = pm.choice([pm.getrandbits(24), 0x00FFFF, 0x03FF0F, 0xFF00FF, 0x0000FF, 0])
    elif kind == "scheme":
        plan["scheme"] = r.choice([0, 1, 2, 3, 4, 0, 1, 2, 3, 4, 5, 255, -1])
        plan["old_scheme"] = r.randrange(5)
        plan["as_enum"] = r.random() < 0.5
    else:
        n = r.choice([0, 1, 2, 3, 5, 8, 12, 64 if tier == "thorough" or r.random() < 0.02 else 6])
        addrs = r.sample(range(64), n)
        devs = []
        for a in addrs:
            ninst = r.choice([0, 1, 2, 3, 8, 32 if r.random() < 0.1 else 4])
            devs.append({"short": a, "status": r.choice([0, 0, 0, 0x20, 0x08, 0x40, 0x04, 0x01, r.getrandbits(7)]),
                         "instances": [[r.choice([1, 2, 3, 4, 6, 0, 31]), r.random() < 0.75] for _ in range(ninst)]})
        if devs and r.random() < 0.15:
            devs.append({"short": devs[0]["short"], "status": 0, "instances": [[1, True]]})
        plan["devices"] = devs
        if devs and r.random() < 0.25:
            # the mapper is long-lived: it was loaded from a saved configuration or has scanned before,
            # and some of what it holds is out of date (a product replaced, an instance re-typed)
            pre = []
            for dd in r.sample(devs, min(len(devs), r.randrange(1, 4))):
                for n_ in range(min(len(dd["instances"]), r.randrange(1, 4))):
                    pre.append([dd["short"], n_, r.choice([1, 2, 3, 4, 6, 0, 31])])
            pre.append([r.randrange(64), r.randrange(32), r.choice([1, 3, 4])])
            plan["preload"] = pre
        plan["range"] = r.choice(["default", "default", "int", "tuple", "list", "iter", "gen", "range"])
    return plan


def _device(plan, itype=1, scheme=0, filt=0, resolution=8, value=0):
    insts = [busim.Instance(itype=r_, enabled=True) for r_ in [2] * plan["inst"]]
    insts.append(busim.Instance(itype=itype, enabled=True, scheme=scheme, filt=filt, resolution=resolution,
                                value=value))
    d = busim.Device(short=plan["addr"], instances=insts, name="D")
    d.dtr0, d.dtr1, d.dtr2 = plan["dtr"]
    return d


def run_plan(plan):
    res = new_result()
    log = EventLog()
    vs = []
    probes = {}
    kind = plan["kind"]

    def V(clause, detail, site=None):
        vs.append(Violation(PROP, clause, detail, driver=kind, site=site))

    faults = {plan["fault"][0]: plan["fault"][1]} if plan["fault"] else {}
    for fi_, fk_ in plan.get("more_faults") or []:
        faults.setdefault(fi_, fk_)
    dev_addr, inst_no = plan["addr"], plan["inst"]
    bystander = busim.Device(short=(dev_addr + 1) % 64,
                             instances=[busim.Instance(itype=1) for _ in range(inst_no + 1)], name="B")
    sr = None
    bus = None
    if kind == "input":
        res_n = plan["resolution"]
        d = _device(plan, itype=2, resolution=res_n, value=plan["value"])
        bus = busim.Bus([d, bystander])
        inst = d.instances[inst_no]

        def env(i, cmd, b):
            if plan["change_at"] is not None and i == plan["change_at"]:
                inst.value = plan["new_value"]
        # "ints are common enough for addresses": every mix of plain ints and address objects
        af = plan.get("arg_form", "objects")
        a_dev = dev_addr if af in ("ints", "int-device") else DeviceShort(dev_addr)
        a_inst = inst_no if af in ("ints", "int-instance") else InstanceNumber(inst_no)
        probes["address-arguments-" + af] = 1
        gen = query_input_value(a_dev, a_inst, resolution=res_n if plan["given"] else None)
        sr = busim.run_sequence(gen, bus, answer_faults=faults, cap=40, env=env, log=log)
        fired = [c for c in sr.commands if c[4]]
        # which value was latched: the one current when QUERY INPUT VALUE arrived
        qi = 0 if plan["given"] else 1
        latched = plan["value"] if (plan["change_at"] is None or plan["change_at"] > qi) else plan["new_value"]
        latched &= (1 << res_n) - 1
        if plan["change_at"] is not None and plan["change_at"] > qi and sr.steps > plan["change_at"]:
            probes["sensor-changed-between-reads"] = 1
        if res_n % 8:
            probes["resolution-not-multiple-of-8"] = 1
        if res_n > 24:
            probes["resolution-over-24"] = 1
        if sr.status == "cap":
            V("sequence-does-not-terminate", "query_input_value still running after 40 commands")
        elif fired:
            if sr.status == "return" and sr.value != latched:
                V("wrong-value-under-fault", "fault %s: returned %r, latched value %d" % (plan["fault"], sr.value, latched),
                  site="res-%s" % ("mult8" if res_n % 8 == 0 else "other"))
            elif sr.status == "raise" and not isinstance(sr.exc, DALISequenceError):
                V("unexpected-exception", "fault %s: %r" % (plan["fault"], sr.exc), site=type(sr.exc).__name__)
        elif sr.status != "return":
            V("sequence-failed", "resolution %d value %d: %s %r" % (res_n, plan["value"], sr.status, sr.exc),
              site=type(sr.exc).__name__ if sr.exc else sr.status)
        elif sr.value != latched:
            V("wrong-input-value", "resolution %d: unit latched %d (%#x), sequence returned %r; bytes %s" % (
                res_n, latched, latched, sr.value, [c[3] for c in sr.commands]),
              site="res-%s" % ("mult8" if res_n % 8 == 0 else "other"))
    elif kind in ("setfilter", "queryfilter"):
        fam = plan["family"]
        if fam == "int":
            cls, width = None, 8
            fval = plan["filter"]
        elif fam == "dyn":
            for pn in plan.get("prelude_dyn") or []:
                pcls = _dyn_filter(pn)
                pdev = busim.Device(short=9, instances=[busim.Instance(itype=20, enabled=True)], name="P")
                busim.run_sequence(SetEventFilters(DeviceShort(9), InstanceNumber(0), pcls((1 << pn) - 1)),
                                   busim.Bus([pdev]), cap=40, log=EventLog())
                probes["earlier-calls-in-same-process"] = 1
            cls = _dyn_filter(plan["dyn_n"])
            width = 8 if plan["dyn_n"] <= 8 else (16 if plan["dyn_n"] <= 16 else 24)
            fval = cls(plan["filter"])
        else:
            cls, _it, width = FILTERS[fam]
            fval = cls(plan["filter"])
        probes["filter-%d-bit" % width if fam != "int" else "filter-plain-int"] = 1
        probes["stale-dtr"] = 1
        d = _device(plan, itype=plan["itype"], filt=plan["old_filter"] & ((1 << width) - 1))
        bus = busim.Bus([d, bystander])
        inst = d.instances[inst_no]
        if plan.get("impl_mask") is not None:
            inst.filter_impl = plan["impl_mask"]
            probes["instance-implements-part-of-the-filter"] = 1
        if kind == "setfilter":
            gen = SetEventFilters(DeviceShort(dev_addr), InstanceNumber(inst_no), fval)
        else:
            inst.filter = plan["filter"] & ((1 << width) - 1)
            if plan.get("unit_bits") is not None:
                # what the unit holds is the unit's business: the factory default (all ones), bits the
                # enumeration has no name for - the sequence reports what is there
                inst.filter = plan["unit_bits"] & ((1 << width) - 1)
                probes["unit-filter-with-unnamed-bits"] = 1
            qcls = cls if cls is not None else pushbutton
            gen = QueryEventFilters(dev_addr, inst_no, qcls)
        sr = busim.run_sequence(gen, bus, answer_faults=faults, cap=40, log=log)
        fired = [c for c in sr.commands if c[4]]
        want = plan["filter"] & ((1 << width) - 1) & (plan["impl_mask"] if plan.get("impl_mask") is not None else 0xFFFFFF)
        if sr.status == "raise" and not isinstance(sr.exc, DALISequenceError):
            V("unexpected-exception", "%s(%s %#x): %r" % (kind, fam, plan["filter"], sr.exc), site=type(sr.exc).__name__)
        elif sr.status == "cap":
            V("sequence-does-not-terminate", kind)
        else:
            if kind == "setfilter" and sr.status == "return":
                if inst.filter != want:
                    V("filter-not-established", "%s filter %#08x requested, instance holds %#08x (stale DTRs %s, commands %s)" % (
                        fam, want, inst.filter, plan["dtr"], [str(c[1]) for c in sr.commands]), site="%d-bit" % width)
            if sr.status == "return":
                if fired:
                    if sr.value is not None and int(sr.value) != inst.filter:
                        V("wrong-filter-under-fault", "fault %s: returned %r, instance holds %#x" % (
                            plan["fault"], sr.value, inst.filter), site="%d-bit" % width)
                elif sr.value is None:
                    V("filter-not-reported", "%s: returned None without any fault (instance holds %#x)" % (kind, inst.filter),
                      site="%d-bit" % width)
                elif int(sr.value) != inst.filter:
                    V("wrong-filter-reported", "%s: returned %r (%#x), instance holds %#x" % (
                        kind, sr.value, int(sr.value), inst.filter), site="%d-bit" % width)
                elif cls is not None and not isinstance(sr.value, cls):
                    V("wrong-filter-type", "returned %r of type %s" % (sr.value, type(sr.value).__name__))
        if bystander.instances[inst_no].filter != 0:
            V("bystander-changed", "another device's instance was reconfigured")
    elif kind == "scheme":
        sch = plan["scheme"]
        d = _device(plan, itype=1, scheme=plan["old_scheme"])
        bus = busim.Bus([d, bystander])
        inst = d.instances[inst_no]
        valid = 0 <= sch <= 4
        if not valid:
            probes["scheme-invalid"] = 1
        try:
            arg = dg.EventScheme(sch) if (plan["as_enum"] and valid) else sch
            gen = SetEventSchemes(DeviceShort(dev_addr), InstanceNumber(inst_no), arg)
            sr = busim.run_sequence(gen, bus, answer_faults=faults, cap=40, log=log)
        except Exception as e:                  # noqa: BLE001
            sr = busim.SeqRun()
            sr.status, sr.exc = "raise", e
        fired = [c for c in sr.commands if c[4]]
        if not valid:
            if sr.status != "raise":
                V("invalid-scheme-accepted", "scheme %r: sequence ran (%s), instance scheme now %d" % (sch, sr.status, inst.scheme))
            elif sr.steps > 0:
                V("invalid-scheme-rejected-late", "scheme %r: %d commands sent before %r" % (sch, sr.steps, sr.exc))
        elif sr.status != "return":
            if not (fired and isinstance(sr.exc, DALISequenceError)):
                V("sequence-failed", "scheme %d: %s %r" % (sch, sr.status, sr.exc), site=type(sr.exc).__name__ if sr.exc else sr.status)
        else:
            if inst.scheme != sch:
                V("scheme-not-established", "scheme %d requested, instance holds %d" % (sch, inst.scheme))
            rv = sr.value
            if fired:
                pass
            elif rv is None or rv.raw_value is None or rv.raw_value.error or rv.raw_value.as_integer != inst.scheme:
                V("wrong-scheme-reported", "returned %r, instance holds %d" % (getattr(rv, "raw_value", rv), inst.scheme))
    else:
        devs = []
        for i, dd in enumerate(plan["devices"]):
            devs.append(busim.Device(short=dd["short"], status=dd["status"],
                                     instances=[busim.Instance(itype=t, enabled=e) for t, e in dd["instances"]],
                                     name="D%d" % i))
        bus = busim.Bus(devs)
        m = DeviceInstanceTypeMapper()
        for a_, i_, t_ in plan.get("preload") or []:
            m.add_type(short_address=a_, instance_number=i_, instance_type=t_)
        if plan.get("preload"):
            probes["mapper-preloaded-with-stale-entries"] = 1
        rng_kind = plan["range"]
        if rng_kind == "default":
            gen, scanned = m.autodiscover(), set(range(64))
        elif rng_kind == "int":
            gen, scanned = m.autodiscover(40), set(range(40))
        elif rng_kind == "tuple":
            gen, scanned = m.autodiscover((5, 50)), set(range(5, 51))
        else:
            # "an iterable of ints": a list, a one-shot iterator, a generator, a range
            lst = sorted({dd["short"] for dd in plan["devices"]} | {0, 63})
            if rng_kind == "range":
                lst = list(range(3, 61))
            arg = {"list": lambda: lst, "iter": lambda: iter(lst), "gen": lambda: (a for a in lst),
                   "range": lambda: range(3, 61)}[rng_kind]()
            gen, scanned = m.autodiscover(arg), set(lst)
        sr = busim.run_sequence(gen, bus, answer_faults=faults, cap=64 * 70 + 50, log=log)
        fired = [c for c in sr.commands if c[4]]
        by_addr = {}
        for dd in plan["devices"]:
            by_addr.setdefault(dd["short"], []).append(dd)
        # a missing or garbled answer leads to a *skip*: of the whole device when
        # a device-level query (status, number of instances) was hit, of that one
        # instance when an instance-level query (enabled, type) was hit
        touched = set()                 # addresses where two devices collide: anything consistent is accepted
        skip_dev, skip_inst = set(), set()
        for c in fired:
            f = c[1].frame.as_integer
            if (f >> 23) == 0:
                a, ib = (f >> 17) & 0x3F, (f >> 8) & 0xFF
                if ib == 0xFE:
                    skip_dev.add(a)
                else:
                    skip_inst.add((a, ib & 0x1F))
        expect = {}
        for a, lst in by_addr.items():
            if a not in scanned:
                continue
            if len(lst) > 1:
                probes["scan-collision"] = 1
                touched.add(a)
                continue
            dd = lst[0]
            if dd["status"] & 0x44:
                probes["scan-reset-state"] = 1
                continue
            if a in skip_dev:
                continue
            for n, (t, e) in enumerate(dd["instances"]):
                if e and (a, n) not in skip_inst:
                    expect[(a, n)] = t
                else:
                    probes["scan-disabled-instance"] = 1
        if len(plan["devices"]) >= 60:
            probes["scan-64-devices"] = 1
        if sr.status == "raise":
            if not isinstance(sr.exc, DALISequenceError):
                V("unexpected-exception", "autodiscover raised %r (fault %s)" % (sr.exc, plan["fault"]), site=type(sr.exc).__name__)
        elif sr.status == "cap":
            V("sequence-does-not-terminate", "autodiscover")
        else:
            got = dict(m.mapping)
            if plan.get("preload"):
                # what the scan had no way (or no reason) to refresh stays as it was loaded: judged are the
                # enabled instances of healthy responding devices inside the scanned range
                got = {k: t for k, t in got.items() if k in expect or
                       [k[0], k[1], t] not in [list(p_) for p_ in plan["preload"]]}
            for k, t in got.items():
                if k not in expect or expect[k] != t:
                    if k[0] in touched and k in expect and expect[k] == t:
                        continue
                    V("wrong-scan-entry", "mapping has %s -> %s, expected %s (fault %s%s)" % (
                        k, t, expect.get(k), plan["fault"],
                        ": the device's status / instance-count answer was lost, it has to be skipped" if k[0] in skip_dev else ""),
                      site="faulted" if (k[0] in touched or fired) else "fault-free")
                    break
            for k, t in expect.items():
                if k not in got and k[0] not in touched:
                    V("missing-scan-entry", "device %d instance %d (type %d, enabled) not recorded" % (k[0], k[1], t))
                    break
            if sr.commands:
                first, last = sr.commands[0][1], sr.commands[-1][1]
                if first.frame.as_integer != 0xFFFE1D:
                    V("scan-not-bracketed", "first command is %s, not StartQuiescentMode(broadcast)" % first, site="start")
                if last.frame.as_integer != 0xFFFE1E:
                    V("scan-not-bracketed", "last command is %s, not StopQuiescentMode(broadcast)" % last, site="stop")
                for dv in devs:
                    if dv.quiescent:
                        V("scan-not-bracketed", "device %s left in quiescent mode" % dv.name, site="state")
                        break
        if fired:
            probes["scan-fault"] = 1
    for c in (sr.commands if sr else []):
        if c[4]:
            probes["answer-dropped" if c[4] == "drop" else "answer-garbled"] = 1
    for v in vs:
        add_violation(res, v)
    res["digest"] = log.digest()
    res["shape"] = log.digest()[:16]
    res["events"] = len(log)
    res["vtime_s"] = (bus.t_us * 1e-6) if bus else 0.0
    res["nontrivial"] = bool(sr) and sr.steps >= 3
    res["probes"] = probes
    if sr:
        res["faults"] = {"answer-" + c[4]: 1 for c in sr.commands if c[4]}
    if res["violations"]:
        res["plan"] = plan
    res["sample"] = {"seed": plan["seed"], "kind": kind, "fault": plan["fault"],
                     "plan": {k: v for k, v in plan.items() if k in ("resolution", "value", "given", "family", "filter", "scheme", "range", "dtr")},
                     "status": sr.status if sr else None,
                     "commands": [(str(c[1]), c[3]) for c in (sr.commands if sr else [])[:8]]}
    return res


def run_seed(seed, tier):
    return [run_plan(gen_plan(seed, tier))]


def shrink(plan):
    if plan["fault"] and not plan.get("more_faults"):
        p = copy.deepcopy(plan)
        p["fault"] = None
        yield p
    for i in range(len(plan.get("more_faults") or [])):
        p = copy.deepcopy(plan)
        del p["more_faults"][i]
        yield p
    if plan.get("devices"):
        for i in range(len(plan["devices"])):
            p = copy.deepcopy(plan)
            del p["devices"][i]
            yield p
        for i, d in enumerate(plan["devices"]):
            for j in range(len(d["instances"])):
                p = copy.deepcopy(plan)
                del p["devices"][i]["instances"][j]
                yield p
    if plan["inst"]:
        p = copy.deepcopy(plan)
        p["inst"] = 0
        yield p
    if plan["dtr"] != [0, 0, 0]:
        p = copy.deepcopy(plan)
        p["dtr"] = [0, 0, 0]
        yield p
    if plan.get("change_at") is not None:
        p = copy.deepcopy(plan)
        p["change_at"] = None
        yield p
