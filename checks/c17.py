"""C17 - gateway loss or silence fails sends promptly and recovery is clean.
Engine: drvsim, fault enumeration: every base schedule is run fault-free to
count simulator events, then re-run once per (fault kind, event index)."""
import asyncio
import copy

from dali.exceptions import CommunicationError

from sim import cmds, drvsim, plans
from sim.core import Violation
from sim.oracles import base_result
from sim.runner import add_violation
from checks.c16 import judge_response

PROP = "C17"
LEVEL = "fault_enumeration"
TIERS = {
    "quick": {"seeds": 2400, "chunk": 10, "wall_s": 420, "shrink_s": 40, "per_run_wall_s": 240,
              "det_check": 2},
    "thorough": {"seeds": 100000, "chunk": 25, "wall_s": 3300, "shrink_s": 120,
                 "per_run_wall_s": 600, "det_check": 2},
}
RULE = ("one seed -> one base schedule (driver = seed mod 4; 0-3 callers with sends/sequences in flight or "
        "queued; reconnect limit None/0/1/3, interval 0.1-5 s, exceptions on/off); the base runs fault-free, "
        "then once per (fault kind, simulator event index): hid drivers - read EOF, read OSError, write OSError "
        "at every write, device back after a seeded delay with 0-2 failing opens, second loss during the "
        "reconnect wait or the handshake, plain cancel / own-timeout of the op running at that event (a subset "
        "followed by 300 further sends); serial drivers - confirmation lost / later than the timeout, answer "
        "lost, cancel. Quick subsamples event indices with a stride, thorough takes all. Every faulted run ends "
        "with fresh sends after recovery. Non-trivial iff a fault fired while an operation was in flight or "
        "queued; distinct = distinct (event kind, actor) sequence.")
ASSUMPTIONS = [
    "gateway models per DESIGN.md 2.5; a vanished hidraw node polls readable and read() returns EOF or EIO; a write to it raises ENODEV",
    "reference for status callbacks: DESIGN.md appendix C ('failed' accepted anywhere between the last failed attempt and one interval later)",
    "serial: documented timeouts 1.0/0.025 s (LUBA) and 0.1/0.03 s (SCI) are used literally; no port loss for serial drivers (connection_lost stops the loop by design)",
    "'fails' means raises any exception; 'CommunicationError' is demanded only for the hid drivers, as the property states",
]
COMPONENTS = {
    "real": ["dali.driver.hid.hid/tridonic/hasseb (connect, _reconnect, disconnect, _reader, send, _send_raw)",
             "dali.driver.serial.DriverLubaRs232/DriverSCIRS232 (send, send_dali_command, timeouts)",
             "asyncio (CPython)"],
    "stub": ["asyncio.wait_for of CPython 3.8-3.11 (transcribed, sim/legacy_asyncio.py) on ~25 % of the asyncio-driver runs", "VirtualLoop selector/clock", "os/glob/random (hid)", "serial_asyncio", "gateway firmware, hidraw node presence, bus"],
}
PROBES = ["two-faults-in-one-run", "loss-with-send-in-flight", "loss-with-send-queued", "loss-during-handshake", "loss-during-reconnect-wait",
          "reconnect-limit-exhausted", "open-failed-after-return", "cancel-while-awaiting-report",
          "wrap-300-sends", "retry-after-reconnect-exceptions-off", "confirm-lost", "answer-lost", "confirm-late"]

US = 1e-6


# ---------------------------------------------------------------------------
def gen_base(seed, tier="quick"):
    r = plans.rng_for(seed, PROP)
    driver = drvsim.DRIVERS[seed % 4]
    hid = driver in ("tridonic", "hasseb")
    knobs = plans.gen_knobs(r, driver)
    knobs["latency"] = r.choice(["fast", "nominal", "nominal", "slow"])
    if hid:
        knobs["reconnect_interval"] = r.choice([0.1, 0.5, 1, 5])
        knobs["reconnect_limit"] = r.choice([None, None, 0, 1, 3])
        knobs["exceptions_on_send"] = r.random() < 0.6
        knobs["glob"] = r.random() < 0.3
        knobs["renumber"] = knobs["glob"] and r.random() < 0.6     # the node name changes on every return
    ncallers = r.choice([1, 1, 2, 2, 3])
    callers = plans.gen_callers(r, driver, ncallers, 2, mix=(0.75, 0.0, 0.25),
                                allow_raise=False, allow_cancel=False, unsupported=0.04,
                                cats=_cats(r, driver), p_error=0.1 if hid else 0.0)
    plan = {"engine": "drvsim", "property": PROP, "driver": driver, "seed": seed,
            "knobs": knobs, "callers": callers, "faults": [], "post_sends": 2,
            "deadline_s": 400, "connect_wait_s": 300}
    pool = list(range(1, 255))
    r.shuffle(pool)
    ends = [v for v in (0, 255) if r.random() < 0.6]     # the ends of the value range, drawn first
    r.shuffle(ends)
    pool.extend(ends)
    for c in plan["callers"]:
        for op in c["ops"]:
            for o in op.get("outs", {}).values():
                if len(o) > 1:
                    o[1] = pool.pop()
    plan["post_values"] = [pool.pop() for _ in range(4)]
    if True:                                   # a second gateway of the same kind with its own driver object
        z = plans.rng_for(seed, PROP + "-line-b")
        if z.random() < 0.15:
            plan["second_line"] = plans.gen_second_line(z)
    if hid:
        # the per-call keyword overrides the driver attribute - in both directions
        x = plans.rng_for(seed, PROP + "-kw")
        for c in plan["callers"]:
            for op in c["ops"]:
                if op["kind"] == "send" and x.random() < 0.35:
                    op["exceptions"] = x.random() < 0.5
    return plan


def _cats(r, driver):
    c = plans.driver_cats(driver)
    if driver in ("luba", "sci"):
        # device-type commands through send() are C15's known finding; keep the wire simple here
        c = [x for x in c if not x.startswith("dt_")]
    return c


def variants(base, base_res, tier, r):
    """Fault plans derived from a fault-free base run."""
    drv = base["driver"]
    hid = drv in ("tridonic", "hasseb")
    n_events = base_res["_n_events"]
    first = base_res["_first_op_event"]
    idxs = list(range(max(first - 2, 0), n_events))
    if tier == "quick" and len(idxs) > 14:
        stride = max(1, len(idxs) // 14)
        off = r.randrange(stride)
        idxs = idxs[off::stride]
    out = []
    interval = base["knobs"].get("reconnect_interval", 1)
    limit = base["knobs"].get("reconnect_limit")

    def mk(faults, **kw):
        p = copy.deepcopy(base)
        p["faults"] = faults
        p.update(kw)
        return p

    def ret_delay():
        ch = [0.3 * interval, 1.5 * interval, 2.5 * interval]
        if limit:
            ch.append((limit + 0.5) * interval)
        return int(r.choice(ch) * 1e6)

    if hid:
        for k in idxs:
            mode = "eof" if (k % 2 == 0) else "oserror"
            out.append(mk([{"kind": "lose", "mode": mode, "at_event": k,
                            "return_after_us": ret_delay(),
                            "open_failures": r.choice([0, 0, 1, 2])}]))
        for k in idxs[::3]:
            out.append(mk([{"kind": "lose", "mode": "oserror" if (k % 2 == 0) else "eof",
                            "at_event": k, "return_after_us": ret_delay(), "open_failures": 0,
                            "second_loss_after_return_us": r.choice([0, 1, 200, 1500, 4000, int(0.4 * interval * 1e6)]),
                            "second_return_after_us": ret_delay()}]))
        for jj, k in enumerate(idxs[1::3] if drv == "tridonic" else []):
            out.append(mk([{"kind": "lose", "mode": "eof", "at_event": k,
                            "return_after_us": ret_delay(), "open_failures": 0,
                            "handshake_write_fail": jj % 2,
                            "second_return_after_us": ret_delay()}]))
        for k in idxs[2::3]:
            out.append(mk([{"kind": "lose", "mode": "eof" if (k % 2 == 0) else "oserror",
                            "at_event": k, "return_after_us": ret_delay(), "open_failures": 0,
                            "second_loss_after_open_us": r.choice([0, 200, 700, 1500, 2500, 4000, 9000]),
                            "second_return_after_us": ret_delay()}]))
        for w in range(base_res["_n_writes"]):
            out.append(mk([{"kind": "write-fail", "write_index": w,
                            "return_after_us": ret_delay(), "open_failures": r.choice([0, 1])}]))
        for j, k in enumerate(idxs):
            style = "cancel" if j % 2 == 0 else "timeout"
            wrap = (j % 7 == 3)
            out.append(mk([{"kind": "cancel-op", "at_event": k, "style": style, "pick": (j // 2) % 3}],
                          post_sends=300 if wrap else 2))
        # the gateway goes and the caller gives up in the same loop iteration, in either order
        for j, k in enumerate(idxs if tier != "quick" else idxs[::2]):
            lf = {"kind": "lose", "mode": "eof" if j % 2 else "oserror", "at_event": k,
                  "return_after_us": ret_delay(), "open_failures": 0}
            cf = {"kind": "cancel-op", "at_event": k, "style": "cancel" if j % 3 else "timeout", "pick": 0}
            out.append(mk([lf, cf] if j % 4 < 2 else [cf, lf]))
        # two faults in one run: loss + cancel, cancel + cancel, loss + later loss
        all_idx = list(range(max(first - 2, 0), n_events))
        for _ in range(10 if tier == "quick" else 60):
            if len(all_idx) < 2:
                break
            k1, k2 = sorted(r.sample(all_idx, 2))
            combo = r.choice(["lose+cancel", "cancel+lose", "cancel+cancel", "lose+lose"])
            f1 = {"kind": "lose", "mode": r.choice(["eof", "oserror"]), "at_event": k1,
                  "return_after_us": ret_delay(), "open_failures": r.choice([0, 0, 1])}
            f2 = {"kind": "lose", "mode": r.choice(["eof", "oserror"]), "at_event": k2,
                  "return_after_us": ret_delay(), "open_failures": 0}
            c1 = {"kind": "cancel-op", "at_event": k1, "style": r.choice(["cancel", "timeout"])}
            c2 = {"kind": "cancel-op", "at_event": k2, "style": r.choice(["cancel", "timeout"])}
            out.append(mk({"lose+cancel": [f1, c2], "cancel+lose": [c1, f2], "cancel+cancel": [c1, c2],
                           "lose+lose": [f1, f2]}[combo]))
    else:
        nsends = base_res["_n_sends"]
        for i in range(nsends):
            out.append(mk([{"kind": "silent-confirm", "send_idx": i}]))
            out.append(mk([{"kind": "silent-answer", "send_idx": i}]))
            if drv == "luba":
                # the gateway stops in the middle of a message (LUBA frames start with a sync byte;
                # SCI has none: there a truncated message cannot be told from a delayed one)
                out.append(mk([{"kind": "truncated-confirm", "send_idx": i, "keep": r.choice([1, 2, 3, 5, 8])}]))
            out.append(mk([{"kind": "late-confirm", "send_idx": i,
                            "extra_us": r.choice([1_300_000, 2_000_000]) if drv == "luba"
                            else r.choice([130_000, 400_000])}]))
        for j, k in enumerate(idxs):
            out.append(mk([{"kind": "cancel-op", "at_event": k, "pick": (j // 2) % 3,
                            "style": "cancel" if j % 2 == 0 else "timeout"}]))
    return out


# ---------------------------------------------------------------------------
class RefModel:
    """Reference for connection status (DESIGN.md appendix C), fed online with
    what the device model sees; also plays the application that calls
    connect() again after the reconnect limit was exhausted."""

    def __init__(self, world, dev, driver, interval, limit):
        self.world, self.dev, self.driver = world, dev, driver
        self.iv = int(round(interval * 1e6))
        self.limit = limit
        self.state = "initial"
        self.expected = []          # (t_us, status) for connected / disconnected
        self.exhausted = []         # times at which 'failed' became due
        self.sched_errors = []
        self.anchor = None
        self.fails = 0
        self.explicit_now = False
        self.explicit_calls = 0
        self.connect_raised = []

    def on_attempt(self, t, ok):
        explicit = self.explicit_now
        if ok:
            if self.state == "retrying" and not explicit:
                self._check(t)
            self.expected.append((t, "connected"))
            self.state = "connected"
            self.fails = 0
            return
        if explicit or self.state in ("initial", "given-up", "connected"):
            # a failed connect() of the application starts a fresh retry cycle
            self.anchor, self.fails, self.state = t, 0, "retrying"
            if self.limit == 0:
                self._give_up(t)
            return
        self._check(t)
        self.anchor = t
        self.fails += 1
        if self.limit is not None and self.fails >= self.limit:
            self._give_up(t)

    def _check(self, t):
        want = self.anchor + self.iv
        if abs(t - want) > 2:
            self.sched_errors.append((t, want))
        if self.state == "given-up":
            self.sched_errors.append((t, "attempt after the limit was exhausted"))

    def _give_up(self, t):
        self.state = "given-up"
        self.exhausted.append(t)
        self.world.probe("reconnect-limit-exhausted")
        if self.dev.present:
            self._schedule_connect()

    def on_detect(self, t):
        if self.state != "connected":
            return
        self.expected.append((t, "disconnected"))
        self.anchor, self.fails, self.state = t, 0, "retrying"
        if self.limit == 0:
            self._give_up(t)

    def on_back(self, t):
        if self.state == "given-up":
            self._schedule_connect()

    def _schedule_connect(self):
        # the application reacts some time after 'failed' was due
        self.world.loop.at(self.world.loop.time() + 1.5 * self.iv * US + 0.000123,
                           self.app_connect)

    def app_connect(self):
        if self.state != "given-up" or not self.dev.present:
            return
        self.explicit_calls += 1
        self.world.log.add(self.world.loop.time(), "app-connect", "app", None)
        self.explicit_now = True
        try:
            self.driver.connect()
        except Exception as e:              # noqa: BLE001 - judged
            self.connect_raised.append(e)
        finally:
            self.explicit_now = False


def _hooks(plan, ctx):
    def on_op_task(rec, t):
        ctx["tasks"][rec.unit] = (rec, t)

    def setup(rr):
        for f in plan.get("faults", []):
            if f["kind"] == "write-fail":
                rr.dev.write_fault_at.add(f["write_index"])
                rr.dev.return_delay_us = f["return_after_us"]
                rr.dev.open_failures_on_return = f.get("open_failures", 0)
        if plan["driver"] in ("tridonic", "hasseb"):
            ref = RefModel(rr.world, rr.dev, rr.driver,
                           plan["knobs"].get("reconnect_interval", 1),
                           plan["knobs"].get("reconnect_limit"))
            ctx["ref"] = ref
            rr.dev.on_attempt, rr.dev.on_detect, rr.dev.on_back = \
                ref.on_attempt, ref.on_detect, ref.on_back

    def connected(rr):
        world, dev = rr.world, rr.dev
        world.log.triggers = {}
        for f in plan.get("faults", []):
            kind = f["kind"]
            if kind == "lose":
                def fire(f=f):
                    def go():
                        if not dev.present:
                            return
                        ctx["fault_t"].append(world.now_us())
                        dev.open_failures_on_return = f.get("open_failures", 0)
                        dev.lose(f["mode"], f["return_after_us"])
                        world.fault("read-" + f["mode"])
                        if f.get("handshake_write_fail") is not None:
                            # the j-th write after the device is back (the
                            # handshake of the reconnect) fails in its turn
                            def arm(t, prev=dev.on_back):
                                if not ctx.get("hs_armed"):
                                    ctx["hs_armed"] = True
                                    dev.write_fault_at.add(dev.write_count + f["handshake_write_fail"])
                                    dev.return_delay_us = f["second_return_after_us"]
                                    world.fault("handshake-write-oserror-armed")
                                if prev:
                                    prev(t)
                            dev.on_back = arm
                        if f.get("second_loss_after_open_us") is not None:
                            # strike during the handshake of the re-opened device
                            ref = ctx.get("ref")
                            prev = dev.on_attempt

                            def on_att(t, ok, prev=prev):
                                if prev:
                                    prev(t, ok)
                                if ok and not ctx.get("hs_loss_done"):
                                    ctx["hs_loss_done"] = True
                                    ctx["pending_losses"] += 1

                                    def again2():
                                        ctx["pending_losses"] -= 1
                                        if dev.present:
                                            if rr.driver._f is not None and not rr.driver.connected.is_set():
                                                world.probe("loss-during-handshake")
                                            dev.open_failures_on_return = 0
                                            dev.lose(f["mode"], f["second_return_after_us"])
                                            world.fault("second-loss")
                                            ctx["fault_t"].append(world.now_us())
                                    world.loop.at(world.loop.time() + f["second_loss_after_open_us"] * US + 1e-7, again2)
                            dev.on_attempt = on_att
                        if f.get("second_loss_after_return_us") is not None:
                            t2 = world.loop.time() + (f["return_after_us"] + f["second_loss_after_return_us"]) * US + 1e-7

                            def again():
                                ctx["pending_losses"] -= 1
                                if dev.present:
                                    dev.open_failures_on_return = 0
                                    dev.lose(f["mode"], f["second_return_after_us"])
                                    world.fault("second-loss")
                                    ctx["fault_t"].append(world.now_us())
                            ctx["pending_losses"] += 1
                            world.loop.at(t2, again)
                    world.loop.call_soon(go)
                world.log.triggers.setdefault(f["at_event"], []).append(fire)
            elif kind == "write-fail":
                pass        # armed in setup(), before the first connect()
            elif kind == "cancel-op":
                def fire(f=f):
                    def go():
                        running = [(u, rt) for u, rt in ctx["tasks"].items() if rt[0].status == "running" and not rt[1].done()]
                        # which of the callers in progress goes away: the one in flight (0) or one still queued behind it
                        pick = running[min(f.get("pick", 0), len(running) - 1):][:1] if running else []
                        for u, (rec, t) in pick:
                            if rec.status == "running" and not t.done():
                                rec.cancel_requested = True
                                ctx["cancelled"].append(u)
                                world.fault("caller-" + f["style"])
                                if f["style"] == "timeout":
                                    ctx["timeout_style"].add(u)
                                t.cancel()
                                break
                    world.loop.call_soon(go)
                world.log.triggers.setdefault(f["at_event"], []).append(fire)
            elif kind == "silent-confirm":
                dev.silent_confirm.add(f["send_idx"])
            elif kind == "silent-answer":
                dev.silent_answer.add(f["send_idx"])
            elif kind == "truncated-confirm":
                dev.truncate_confirm[f["send_idx"]] = f["keep"]
            elif kind == "late-confirm":
                dev.late_confirm[f["send_idx"]] = f["extra_us"]

    async def finish(rr):
        world, dev, driver = rr.world, rr.dev, rr.driver
        hid = plan["driver"] in ("tridonic", "hasseb")
        ctx["t_callers_done"] = world.now_us()
        rr.post = []
        # faults are placed inside the callers' phase; whatever has not fired by
        # now is disarmed, so that "after the faults have stopped" is well defined
        if world.log.triggers:
            world.log.triggers.clear()
        if hid:
            # wait until the device is back for good; the RefModel plays the
            # application that calls connect() again once the limit is exhausted
            interval = plan["knobs"].get("reconnect_interval", 1)
            limit = plan["knobs"].get("reconnect_limit")
            need_hs = any(f.get("second_loss_after_open_us") is not None
                          for f in plan.get("faults", []))
            for _ in range(400):
                settled = dev.present and not _more_losses_pending(ctx, world)
                if settled and need_hs and ctx["fault_t"] and not ctx.get("hs_loss_done"):
                    settled = False
                if settled:
                    break
                await asyncio.sleep(interval)
            try:
                await asyncio.wait_for(driver.connected.wait(),
                                       ((limit or 0) + 3) * interval * 4 + 30)
            except asyncio.TimeoutError:
                rr.post.append(("no-recovery", None))
                return
        else:
            await asyncio.sleep(3.0)
        # faults have stopped: nothing armed may strike the recovery phase
        if hid:
            dev.write_fault_at.clear()
        else:
            for armed in (dev.silent_confirm, dev.silent_answer, dev.late_confirm,
                          getattr(dev, "truncate_confirm", {})):
                armed.clear()
        if any(f["kind"] == "truncated-confirm" for f in plan.get("faults", [])):
            # a message cut short leaves the length-prefixed deframer waiting for the rest: the next
            # message, whenever it comes, completes the fragment and is lost with it - and the tail of
            # that message can look like the start of yet another one (a 0x59 among its bytes), which
            # swallows the next in its turn.  Commands are spent on that - each may fail or go unanswered
            # in time, none may hang - until one gets through (at most four) before recovery is judged
            for _attempt in range(4):
                tok = world.unit.set("post.flush")
                t_post = world.loop.time()
                try:
                    await asyncio.wait_for(driver.send(cmds.mk_cmd(cmds.spec_of(_query(7)))), 60)
                    break
                except asyncio.TimeoutError as e:
                    if world.loop.time() - t_post >= 59.9:
                        rr.post.append(("hang", "post.flush", None, None, e))
                        return
                except Exception:                   # noqa: BLE001
                    pass
                finally:
                    try:
                        world.unit.reset(tok)
                    except ValueError:
                        pass
                world.probe("deframer-still-out-of-step-after-a-flush-command")
            await asyncio.sleep(0.2)
        # fresh sends after recovery
        n = plan.get("post_sends", 2)
        vals = plan["post_values"]
        qa = cmds.spec_of(_query(0))
        for i in range(n):
            v = vals[i % len(vals)]
            spec = cmds.spec_of(_query(i % 60))
            unit = "post.%d" % i
            dev.bus.outcomes[unit] = {"%d:%d" % (spec[0], spec[1]): ["value", v]}
            tok = world.unit.set(unit)
            try:
                kw = {"exceptions": True} if hid else {}
                t_post = world.loop.time()
                res = await asyncio.wait_for(driver.send(cmds.mk_cmd(spec), **kw), 60)
                rr.post.append(("ok", unit, spec, v, res))
            except asyncio.TimeoutError as e:
                # (the serial drivers report their own time-outs with the same exception class)
                rr.post.append(("hang" if world.loop.time() - t_post >= 59.9 else "raised", unit, spec, v, e))
                break
            except Exception as e:                  # noqa: BLE001
                rr.post.append(("raised", unit, spec, v, e))
            finally:
                try:
                    world.unit.reset(tok)
                except ValueError:
                    pass
        await asyncio.sleep(0.5)

    return {"_op_task": on_op_task, "setup": setup, "connected": connected, "finish": finish}


def _more_losses_pending(ctx, world):
    return ctx["pending_losses"] > 0


def _query(a):
    from dali.gear.general import QueryActualLevel
    return QueryActualLevel(a)


# ---------------------------------------------------------------------------
def judge(rr, ctx):
    out = []
    plan = rr.plan
    drv = plan["driver"]
    hid = drv in ("tridonic", "hasseb")
    kn = plan["knobs"]
    faults = plan.get("faults", [])
    fkinds = sorted({f["kind"] + ("+flap" if (f.get("second_loss_after_return_us") is not None or
                                              f.get("second_loss_after_open_us") is not None) else "")
                     for f in faults})

    phase = {"post": False}
    if not hid:
        # a confirmation that came later than its timeout without any injected
        # fault (a 24-bit send-twice frame on a slow link): same history as the
        # injected "late-confirm" fault
        for s_ in rr.dev.sends:
            if s_.get("conf_arrival_us") is not None and \
                    s_["conf_arrival_us"] - s_["t_us"] > CONF_TO[drv] * 1e6 and "late-confirm" not in fkinds:
                fkinds = sorted(fkinds + ["late-confirm"])
                rr.world.probe("organic-late-confirm")
                break

    conf_only = ""
    lc = [f for f in faults if f["kind"] == "late-confirm"]
    if not hid and len(faults) == 1 and lc and lc[0]["send_idx"] < len(rr.dev.sends):
        # the late confirmation belongs to a command that expects no answer and whose frame no later
        # command repeats: all that is left over is a confirmation the drivers can tell from their own
        # (it names another frame) - the arrival-order limitation does not apply, so a site of its own
        s0 = rr.dev.sends[lc[0]["send_idx"]]
        if s0.get("bits") is not None and cmds.mk_cmd([s0["bits"], s0["value"], 0]).response is None \
                and not any((s_.get("bits"), s_.get("value")) == (s0["bits"], s0["value"])
                            for s_ in rr.dev.sends[lc[0]["send_idx"] + 1:]) and drv == "luba" \
                and not any(s_ is not s0 and (s_.get("conf_arrival_us") is None
                                              or s_["conf_arrival_us"] - s_["t_us"] > 0.8 * CONF_TO[drv] * 1e6)
                            for s_ in rr.dev.sends if "t_us" in s_):
            conf_only = "/only-a-foreign-confirmation-left-over"
            rr.world.probe("late-confirmation-of-an-answerless-command")

    def V(clause, detail, site=None):
        # a foreign answer that had reached the host before the victim's
        # command was written could have been discarded at that moment: not the
        # arrival-order limitation, so it gets a site of its own
        stale = "/stale-before-write" if isinstance(site, str) and site.endswith("/stale-before-write") else ""
        stale = stale or conf_only
        if phase["post"] and clause in ("answer-lost", "answer-of-other-command", "wrong-answer",
                                        "framing-error-not-reported"):
            # long after the faults have stopped: recovery is not clean
            clause, site = "post-recovery-answers-misattributed", "after-" + _family(fkinds)
        elif clause in ("answer-lost", "answer-of-other-command", "wrong-answer",
                        "framing-error-not-reported"):
            # one defect family per fault history: after this fault the
            # answers reach the wrong command (shifted / lost / swapped)
            clause, site = "answers-misattributed", "after-" + _family(fkinds) + stale
        elif clause in ("response-type", "query-returned-none", "non-query-returned-value"):
            site = "%s@%s" % (site, "+".join(fkinds) or "no-fault")
        out.append(Violation(PROP, clause, detail, driver=drv, site=site, trigger=fkinds))

    if rr.connect_error is not None:
        V("connect-raised", "connect() raised %r" % (rr.connect_error,),
          site=type(rr.connect_error).__name__)
        return out
    if rr.deadlock or rr.stepcap or rr.pending:
        stuck = sorted(u for u, o in rr.ops.items() if o.status in ("pending", "running"))
        V("send-hangs", "deadlock=%s stepcap=%s pending=%s stuck=%s" % (
            rr.deadlock, rr.stepcap, rr.pending, stuck),
          site="exceptions-%s" % ("on" if kn.get("exceptions_on_send", True) else "off") if hid else None)
    detections = [t for t, _ in getattr(rr.dev, "detections", [])]
    all_values = set(plan.get("post_values", []))
    for c in plan["callers"]:
        for op in c["ops"]:
            for o in op.get("outs", {}).values():
                if len(o) > 1:
                    all_values.add(o[1])
    serial = not hid
    touched_serial = _serial_touched(rr, faults, ctx) if serial else set()
    for u, rec in rr.ops.items():
        specs = drvsim.op_cmd_specs(rec.op)
        exc_on = rec.op.get("exceptions")
        if exc_on is None:
            exc_on = kn.get("exceptions_on_send", True)
        if rec.op["kind"] != "send":
            # run_sequence() has no retry mode: exceptions_on_send is about send()
            exc_on = True
        if rec.status in ("pending", "running"):
            continue
        if rec.status == "livelock":
            V("send-spins-without-yielding", "unit %s: the driver loops around a failing I/O call without ever "
              "returning to the event loop" % u, site="exceptions-%s" % ("on" if exc_on else "off"))
            continue
        if rec.status == "raised" and rec.cancel_requested and not rec.op.get("unsupported") \
                and not isinstance(rec.exc, (CommunicationError, TimeoutError, asyncio.CancelledError)):
            # a caller that gives up gets its cancellation (or, if the gateway went at the same moment,
            # the loss) - not an internal error of the driver
            V("cancelled-send-raised-other", "unit %s: cancelled, ended with %r" % (u, rec.exc), site=type(rec.exc).__name__)
            continue
        if rec.status == "cancelled" or (rec.status in ("timeout", "raised") and rec.cancel_requested):
            continue
        if rec.op.get("unsupported"):
            # a frame the gateway cannot carry is refused at once - gateway there or not, retry policy or not
            if rec.status != "raised" or any(s_["unit"] == u for s_ in rr.dev.sends):
                V("unsupported-frame-not-refused", "unit %s: %d-bit frame, exceptions=%r: %s" % (
                    u, rec.op["cmd"][0], rec.op.get("exceptions"), rec.status), site=drv)
            continue
        if rec.status in ("raised", "timeout"):
            if hid:
                if not isinstance(rec.exc, CommunicationError):
                    V("send-raised-other-than-CommunicationError", "unit %s: %r" % (u, rec.exc),
                      site=type(rec.exc).__name__)
                elif not exc_on:
                    V("raised-although-exceptions-off", "unit %s raised %r" % (u, rec.exc))
                elif not any(rec.t_start <= t <= rec.t_end for t in detections):
                    V("CommunicationError-without-loss", "unit %s raised CommunicationError at %s..%s, "
                      "losses detected at %s" % (u, rec.t_start, rec.t_end, detections))
            else:
                if u not in touched_serial:
                    V("send-raised-untouched", "unit %s: %r although no fault touched it" % (u, rec.exc),
                      site=type(rec.exc).__name__)
                else:
                    _serial_fail_timing(V, rr, u, rec, drv)
            continue
        # status ok: every returned response must be right for its own command
        if rec.op["kind"] == "send":
            results = [rec.result]
        else:
            results = list(rec.responses)
        if hid:
            _check_last_attempt_prefix(V, rr, u, specs)
        seen = {}
        for spec, result in zip(specs, results):
            cmd = cmds.mk_cmd(spec)
            o = rec.op.get("outs", {}).get("%d:%d" % (spec[0], spec[1]))
            occ = seen.get((spec[0], spec[1]), 0)
            seen[(spec[0], spec[1])] = occ + 1
            when = None
            if drv == "hasseb":
                when = (lambda raw, u=u, spec=spec, occ=occ: _hasseb_when(rr, u, spec, raw, occ))
            if serial and u in touched_serial:
                # the answer may legitimately be lost; it may never be wrong
                if result is not None and getattr(result, "raw_value", None) is None:
                    _serial_answer_timing(V, rr, u, rec, drv)
                    continue
            judge_response(V, drv, u, cmd, o, result, False, all_values, serial, when=when)
    # ---- quiescent state --------------------------------------------------
    fin = rr.final
    if fin.get("tx_lock"):
        V("transaction-lock-held-at-end", "transaction_lock locked at quiescence")
    if drv == "tridonic":
        if fin.get("semaphore") != 2:
            V("semaphore-slot-leaked", "command semaphore value %s at quiescence" % fin.get("semaphore"))
        if fin.get("outstanding"):
            V("in-flight-slot-leaked", "_outstanding still holds sequence numbers %s at quiescence" % (
                fin["outstanding"],), site="+".join(sorted({f.get("style", f["kind"]) for f in faults})) or None)
    if drv == "tridonic":
        # sequence numbers never repeat immediately - a reconnection in between does not change that:
        # a late report from before the loss must not match the first command after it
        ss = [s_ for s_ in rr.dev.sends if "seq" in s_]
        for a, b in zip(ss, ss[1:]):
            if a["seq"] == b["seq"]:
                V("sequence-number-repeated", "two consecutive SEND packets carry sequence number %d (device generation %s "
                  "then %s)" % (a["seq"], a.get("gen"), b.get("gen")),
                  site="across-reconnection" if a.get("gen") != b.get("gen") else "same-connection")
                break
    if drv == "hasseb" and fin.get("command_lock"):
        V("command-lock-held-at-end", "hasseb command lock locked at quiescence")
    if serial and fin.get("proto_tx_lock"):
        V("tx-lock-held-at-end", "protocol tx lock locked at quiescence")
    # ---- recovery ---------------------------------------------------------
    phase["post"] = True
    for item in getattr(rr, "post", []):
        if item[0] == "no-recovery":
            V("no-recovery", "device back and connect() called, but the driver never became connected",
              site=_recovery_site(rr, ctx))
        elif item[0] == "connect-raised":
            V("connect-raised", "explicit connect() raised %r" % (item[1],), site=type(item[1]).__name__)
        elif item[0] == "hang":
            V("post-recovery-send-hangs", "send %s after recovery did not return within 60 s" % item[1])
        elif item[0] == "raised":
            V("post-recovery-send-raised", "send %s after recovery raised %r" % (item[1], item[4]),
              site=type(item[4]).__name__)
        elif item[0] == "ok":
            _, unit, spec, v, res = item
            judge_response(V, drv, unit, cmds.mk_cmd(spec), ["value", v], res, False, all_values, serial)
    for c_, d_, s_ in drvsim.judge_second_line(rr):
        V(c_, d_, s_)
    if hid:
        for t_, path_, node_ in getattr(rr.dev, "unexpected_open_failures", [])[:1]:
            V("reconnect-attempt-wasted-on-stale-node", "at %d us the driver tried to open %s although its pattern matches "
              "the returned device as %s: the attempt failed with the device present" % (t_, path_, node_), site=drv)
        _judge_status(V, rr, ctx, kn)
        if getattr(rr.dev, "handshake_violations", None):
            V("send-before-handshake", "SEND reached the gateway before read-version/read-serial: %s" % (
                rr.dev.handshake_violations[:2],))
        for cx in rr.unhandled:
            e = cx.get("exception")
            V("exception-escaped-callback", "%s: %r" % (cx.get("message"), e),
              site=type(e).__name__ if e else None)
    return out


def _hasseb_when(rr, u, spec, raw, occurrence):
    """Had every report carrying the foreign value reached the host before the
    victim's frame was written (the driver discards what lies around at that
    moment), or did one arrive afterwards (the hasseb protocol has nothing to
    match a report to a command with)?"""
    if raw is None:
        return "plain"
    t_write, k = None, 0
    for s_ in rr.dev.sends:
        if s_["unit"] == u and (s_.get("bits"), s_.get("value")) == (spec[0], spec[1]):
            if k <= occurrence:
                t_write = s_["t_us"]
            k += 1
    arr = [t for t, d in rr.dev.delivered if len(d) == 2 and d[0] in (2, 3) and d[1] == raw.as_integer]
    if t_write is None or not arr:
        return "unattributed"
    return "stale-before-write" if all(t < t_write for t in arr) else "arrived-after-write"


def _check_last_attempt_prefix(V, rr, u, specs):
    """A command that needs a device type must be immediately preceded by its
    EnableDeviceType frame on the wire - also in the attempt that finally
    succeeded after a reconnection (same device generation)."""
    sends = rr.dev.sends
    # the same frame may occur with different device types within one unit;
    # the last transmission of a frame belongs to its last occurrence
    last_by_frame = {}
    for spec in specs:
        c = cmds.mk_cmd(spec)
        last_by_frame[(len(c.frame), c.frame.as_integer)] = c
    for fv, cmd in last_by_frame.items():
        if not cmd.devicetype:
            continue
        idxs = [i for i, s_ in enumerate(sends) if s_["unit"] == u and (s_.get("bits"), s_.get("value")) == fv]
        if not idxs:
            continue
        i = idxs[-1]
        prev = sends[i - 1] if i > 0 else None
        if rr.plan["driver"] == "hasseb" and cmd.sendtwice and len(idxs) >= 2 and idxs[-2] == i - 1:
            prev = sends[i - 2] if i > 1 else None
        ok = prev is not None and prev["unit"] == u and prev.get("gen") == sends[i].get("gen") and \
            (prev.get("bits"), prev.get("value")) == (16, cmds.edt_frame(cmd.devicetype))
        if not ok:
            V("retried-command-without-device-type-prefix", "unit %s: %s reached the gateway (generation %s) preceded by %s, "
              "not by EnableDeviceType(%d) of the same attempt" % (
                  u, cmd, sends[i].get("gen"),
                  None if prev is None else "%s:%x (unit %s, generation %s)" % (prev.get("bits"), prev.get("value", 0), prev["unit"], prev.get("gen")),
                  cmd.devicetype), site=rr.plan["driver"])


def _family(fkinds):
    """With several faults in one run the misattribution is charged to the one
    that is known to cause it (a cancelled send, a late confirmation)."""
    if "cancel-op" in fkinds:
        return "cancel-op"
    if "late-confirm" in fkinds:
        return "late-confirm"
    return "+".join(fkinds) or "no-fault"


def _recovery_site(rr, ctx):
    return "after-" + "+".join(sorted({f["kind"] for f in rr.plan.get("faults", [])}))


def _serial_touched(rr, faults, ctx):
    touched = set()
    idx_faults = {f["send_idx"] for f in faults if "send_idx" in f}
    hit = False
    for s in rr.dev.sends:
        slow = s.get("conf_arrival_us") is not None and \
            s["conf_arrival_us"] - s["t_us"] > 0.8 * CONF_TO[rr.plan["driver"]] * 1e6
        if slow:
            rr.world.probe("confirm-slower-than-80pct-of-timeout")
        if s["idx"] in idx_faults or s["unit"] in ctx["cancelled"] or slow:
            hit = True
        if hit:
            # a lost/late confirmation or answer leaves stale items that may
            # reach later operations as well; what they may do is still bounded:
            # fail, or report 'no answer' - never a wrong value
            touched.add(s["unit"])
    return touched


CONF_TO = {"luba": 1.0, "sci": 0.1}
RX_TO = {"luba": 0.025, "sci": 0.03}


def _serial_fail_timing(V, rr, u, rec, drv):
    sends = [s for s in rr.dev.sends if s["unit"] == u]
    if not sends:
        return
    last = sends[-1]
    nconf = 2 if (last.get("twice") and drv == "luba") else 1
    if any(f["kind"] == "truncated-confirm" for f in rr.plan.get("faults", [])):
        nconf += 1          # the fragment may swallow one of the messages waited for, each wait has its own time-out
    limit = CONF_TO[drv] * nconf + 0.005
    took = (rec.t_end - last["t_us"]) * US
    if took > limit:
        V("confirmation-timeout-too-slow", "unit %s failed %.3f s after its last write (documented limit %.3f s)" % (
            u, took, limit))


def _serial_answer_timing(V, rr, u, rec, drv):
    sends = [s for s in rr.dev.sends if s["unit"] == u and s.get("conf_arrival_us")]
    if not sends:
        return
    last = sends[-1]
    took = (rec.t_end - last["conf_arrival_us"]) * US
    if rec.op["kind"] == "send" and took > RX_TO[drv] + 0.005:
        V("answer-timeout-too-slow", "unit %s returned 'no answer' %.3f s after the confirmation "
          "(documented %.3f s)" % (u, took, RX_TO[drv]))


def _judge_status(V, rr, ctx, kn):
    ref = ctx.get("ref")
    if ref is None:
        return
    interval = kn.get("reconnect_interval", 1)
    limit = kn.get("reconnect_limit")
    if ref.sched_errors:
        V("reconnect-schedule", "open attempts off schedule (interval %s, limit %s): %s" % (
            interval, limit, ref.sched_errors[:3]))
    for e in ref.connect_raised:
        V("connect-raised", "connect() called by the application raised %r" % (e,),
          site=type(e).__name__)
    got = [(t, s) for t, s in rr.status_events if s in ("connected", "disconnected")]
    exp = ref.expected
    if [s for _, s in got] != [s for _, s in exp] or \
            any(abs(a[0] - b[0]) > 2 for a, b in zip(got, exp)):
        V("status-sequence", "status callbacks %s, reference %s" % (got[:8], exp[:8]))
    failed = [t for t, s in rr.status_events if s == "failed"]
    unmatched = list(failed)
    for t_ex in ref.exhausted:
        hit = [t for t in unmatched if t_ex <= t <= t_ex + ref.iv + 2]
        if hit:
            unmatched.remove(hit[0])
        else:
            V("failed-not-reported", "reconnect limit %s exhausted at %d us but no 'failed' status "
              "within one interval (statuses: %s)" % (limit, t_ex, [s for _, s in rr.status_events][:10]))
            break
    if unmatched:
        V("failed-reported-spuriously", "'failed' at %s although the limit was not exhausted then "
          "(exhausted at %s)" % (unmatched[:3], ref.exhausted[:3]))
    other = [s for _, s in rr.status_events if s not in ("connected", "disconnected", "failed")]
    if other:
        V("unknown-status", "status callbacks %s" % other)


# ---------------------------------------------------------------------------
def run_plan(plan):
    ctx = {"tasks": {}, "fault_t": [], "cancelled": [], "timeout_style": set(),
           "pending_losses": 0}
    rr = drvsim.run(plan, hooks=_hooks(plan, ctx))
    res = base_result(rr)
    w = rr.world
    dev = rr.dev
    firsts = [o.ev_start for o in rr.ops.values() if o.ev_start is not None]
    ends = [o.ev_end for o in rr.ops.values() if o.ev_end is not None]
    res["_first_op_event"] = min(firsts) if firsts else 0
    res["_n_events"] = (max(ends) + 1) if ends else min(len(w.log), 6)
    res["_n_writes"] = sum(1 for wr in getattr(dev, "writes", []) if not str(wr[2]).startswith("post"))
    res["_n_sends"] = sum(1 for s in dev.sends if s["unit"] is not None and not str(s["unit"]).startswith("post"))
    faults = plan.get("faults", [])
    # probes / non-triviality
    nt = False
    for t in ctx["fault_t"]:
        inflight = [o for o in rr.ops.values() if o.t_start is not None and o.t_start <= t
                    and (o.t_end is None or o.t_end >= t)]
        if inflight:
            nt = True
            w.probe("loss-with-send-in-flight")
        if len(inflight) > 1:
            w.probe("loss-with-send-queued")
    if ctx["cancelled"]:
        nt = True
        w.probe("cancel-while-awaiting-report")
    for f in faults:
        if f["kind"] in ("silent-confirm", "silent-answer", "late-confirm", "truncated-confirm"):
            nt = True
            w.probe({"silent-confirm": "confirm-lost", "silent-answer": "answer-lost", "truncated-confirm": "confirm-truncated",
                     "late-confirm": "confirm-late"}[f["kind"]])
            w.fault(f["kind"])
        if f.get("second_loss_after_return_us") is not None and len(getattr(dev, "losses", [])) > 1:
            w.probe("loss-during-reconnect-wait")
    if any(not ok for _, ok in getattr(dev, "open_attempts", [])):
        w.probe("open-failed-after-return")
    if plan.get("post_sends", 0) >= 300:
        w.probe("wrap-300-sends")
    if len(faults) >= 2 and (len(ctx["fault_t"]) + len(ctx["cancelled"])) >= 2:
        w.probe("two-faults-in-one-run")
    if not plan["knobs"].get("exceptions_on_send", True) and getattr(dev, "detections", []):
        w.probe("retry-after-reconnect-exceptions-off")
    if faults and getattr(dev, "faults_fired", None):
        nt = nt or bool(dev.faults_fired.get("write-oserror"))
    res["nontrivial"] = nt
    res["faults"] = {**res["faults"], **w.faults}
    for k, n in getattr(dev, "faults_fired", {}).items():
        res["faults"][k] = max(res["faults"].get(k, 0), n)
    for v in judge(rr, ctx):
        add_violation(res, v)
    res["probes"] = dict(w.probes)
    if res["violations"]:
        res["plan"] = plan
    res["sample"] = {"seed": plan["seed"], "driver": plan["driver"], "knobs": plan["knobs"],
                     "faults": faults,
                     "ops": {u: o.status for u, o in rr.ops.items()},
                     "status": rr.status_events[:10]}
    return res


def run_seed(seed, tier):
    base = gen_base(seed, tier)
    b = run_plan(base)
    results = [b]
    if b["violations"]:
        return _strip(results)
    r = plans.rng_for(seed, PROP + "-variants")
    for p in variants(base, b, tier, r):
        results.append(run_plan(p))
    return _strip(results)


def _strip(results):
    for r in results:
        for k in [k for k in r if k.startswith("_")]:
            del r[k]
    return results


def shrink(plan):
    for p in plans.shrink(plan):
        yield p
    if plan.get("post_sends", 0) > 2:
        p = copy.deepcopy(plan)
        p["post_sends"] = 2
        yield p
    for i, f in enumerate(plan.get("faults", [])):
        for fld, simple in (("open_failures", 0), ("second_loss_after_return_us", None)):
            if f.get(fld):
                p = copy.deepcopy(plan)
                if simple is None:
                    del p["faults"][i][fld]
                else:
                    p["faults"][i][fld] = simple
                yield p
        if f.get("at_event"):
            for d in (1, 2, 5):
                if f["at_event"] - d >= 0:
                    p = copy.deepcopy(plan)
                    p["faults"][i]["at_event"] = f["at_event"] - d
                    yield p
