"""C14 - colour (DT8) sequences carry 16-bit values byte-exactly and in order.
Engine busim: SetDT8ColourValueTc / QueryDT8ColourValue / SetDT8TcLimit
stepped against IEC 62386-209 Tc unit models."""
import copy

from dali.address import GearBroadcast, GearGroup, GearShort
from dali.gear import colour
from dali.gear.sequences import QueryDT8ColourValue, SetDT8ColourValueTc, SetDT8TcLimit

from sim import busim, drvsim, plans
from sim.core import EventLog, Violation
from sim.runner import add_violation, new_result

PROP = "C14"
LEVEL = "exploration"
TIERS = {
    "quick": {"seeds": 420000, "chunk": 2000, "wall_s": 300, "shrink_s": 30},
    "thorough": {"seeds": 12000000, "chunk": 10000, "wall_s": 3000, "shrink_s": 120},
}
RULE = ("one seed -> one scenario: 1-4 DT8 gear models (short addresses, groups, stale DTR contents, stored colour values) "
        "and one of: set Tc (seeds walk through all 65536 mirek values, edges over-weighted) to a short / int / group / "
        "broadcast destination; store a Tc limit with each of the four selectors; query one of the selectors against a "
        "stored 16-bit value with silence or a framing error on either answer byte; out-of-range / wrong-type "
        "arguments. Non-trivial iff the sequence exchanged >= 3 commands; distinct = distinct (command, outcome) sequence.")
ASSUMPTIONS = [
    "Tc unit model per DESIGN.md appendix A.1: SET TEMPORARY COLOUR TEMPERATURE takes DTR1:DTR0, ACTIVATE applies it, STORE COLOUR TEMPERATURE LIMIT (twice) uses DTR2 as selector, QUERY COLOUR VALUE answers the MSB and leaves the LSB in DTR0; all only directly after ENABLE DEVICE TYPE 8",
    "EnableDeviceType is inserted before each command that declares a device type, as every driver's run_sequence does",
    "selector numbers (QUERY COLOUR VALUE table 11; STORE COLOUR TEMPERATURE Tc LIMIT: 0 coolest, 1 warmest, 2 physical coolest, 3 physical warmest) are rebuilt in the check by the library's member *names*; sequences are called with the library's enum member of that name",
]
COMPONENTS = {"real": ["dali.gear.sequences.*", "dali.gear.colour command classes / selector enums"],
              "stub": ["bus and DT8 control gear (sim/busim.py)", "driver"]}
PROBES = ["earlier-calls-in-same-process", "stacked-tridonic", "stacked-luba", "stacked-sci", "tc-edge-value", "msb-mask", "answer-dropped-msb", "answer-dropped-lsb", "answer-garbled", "bad-argument",
          "group-destination", "broadcast-destination", "limit-stored", "limit-selector-by-name", "stale-dtr"]

EDGES = [0, 1, 255, 256, 257, 0x00FF, 0xFF00, 0x7FFF, 0x8000, 65534, 65535]


def _spec_query_selectors():
    """IEC 62386-209 table 11 (QUERY COLOUR VALUE, DTR0 selector) by the
    library's member names - built here from the structure of the table, not
    read from the library's enum."""
    t = {"XCoordinate": 0, "YCoordinate": 1, "ColourTemperatureTC": 2}
    for n in range(6):
        t["PrimaryNDimLevel%d" % n] = 3 + n
    for i, c in enumerate(["Red", "Green", "Blue", "White", "Amber", "Freecolour"]):
        t[c + "DimLevel"] = 9 + i
    t["RGBWAFControl"] = 15
    for n in range(6):
        for i, c in enumerate(["XCoordinatePrimaryN", "YCoordinatePrimaryN", "TYPrimaryN"]):
            t["%s%d" % (c, n)] = 64 + 3 * n + i
    t["NumberOfPrimaries"] = 82
    for i, c in enumerate(["Coolest", "PhysicalCoolest", "Warmest", "PhysicalWarmest"]):
        t["ColourTemperatureTc" + c] = 128 + i
    for pre, base, tc, rgb in (("Temporary", 192, "TemporaryColourTemperature", "TemporaryRgbwafControl"),
                               ("Report", 224, "ReportColourTemperatureTc", "ReportRgbwafControl")):
        t[pre + "XCoordinate"] = base
        t[pre + "YCoordinate"] = base + 1
        t[tc] = base + 2
        for n in range(6):
            t["%sPrimaryNDimLevel%d" % (pre, n)] = base + 3 + n
        for i, c in enumerate(["Red", "Green", "Blue", "White", "Amber", "Freecolour"]):
            t[pre + c + "DimLevel"] = base + 9 + i
        t[rgb] = base + 15
        t[pre + "ColourType"] = base + 16
    return t


SPEC_QUERY = _spec_query_selectors()
SPEC_QUERY_NAMES = sorted(SPEC_QUERY, key=SPEC_QUERY.get)
# IEC 62386-209 command 242 STORE COLOUR TEMPERATURE Tc LIMIT, DTR2 selector
SPEC_LIMIT = {"TcCoolest": 0, "TcWarmest": 1, "TcPhysicalCoolest": 2, "TcPhysicalWarmest": 3}
SPEC_LIMIT_NAMES = sorted(SPEC_LIMIT, key=SPEC_LIMIT.get)


def gen_plan(seed, tier="quick"):
    r = plans.rng_for(seed, PROP)
    kind = ("set", "query", "limit", "set", "query", "badarg")[seed % 6] if seed % 97 else "badarg"
    units = []
    shorts = r.sample(range(64), r.randrange(1, 5))
    for s in shorts:
        units.append({"short": s, "groups": r.getrandbits(16), "dtr": [r.randrange(256) for _ in range(3)],
                      "values": {}})
    if seed % 6 == 0 and seed % 97:
        tc = (seed // 6) % 65536          # the quick tier walks through every mirek value
    else:
        tc = (seed // 6) % 65536 if r.random() < 0.4 else r.choice(EDGES + [r.getrandbits(16)])
    plan = {"engine": "busim", "property": PROP, "seed": seed, "kind": kind, "units": units,
            "dest": r.choice(["short", "short", "int", "group", "broadcast"]), "tc": tc, "fault": None}
    if plan["dest"] == "group":
        plan["dest_group"] = r.randrange(16)
    if kind == "query":
        plan["dest"] = r.choice(["short", "int"])
        plan["selector_name"] = r.choice(SPEC_QUERY_NAMES)
        plan["selector"] = SPEC_QUERY[plan["selector_name"]]

        class sel:                       # noqa: N801 - what the unit stores is keyed by the spec's number
            value = plan["selector"]
        v = r.choice(EDGES + [r.getrandbits(16), r.getrandbits(16), 0xFF00 | r.randrange(256), r.randrange(0xFF00)])
        if r.random() < 0.9:
            units[0]["values"][str(sel.value)] = v
        if r.random() < 0.35:
            plan["fault"] = [r.randrange(0, 4), r.choice(["drop", "garble", "garble", "garble-same"])]
    elif kind == "limit":
        plan["selector"] = r.choice([0, 1, 2, 3])
        # by the library's name for it (what an application writes), or as a bare number
        plan["selector_name"] = SPEC_LIMIT_NAMES[plan["selector"]] if r.random() < 0.6 else None
    if seed % 40 == 17 and kind != "badarg":
        plan["fault"] = None
        plan["transport"] = ("tridonic", "luba", "sci")[(seed // 40) % 3]
    h = plans.rng_for(seed, PROP + "-history")
    if h.random() < 0.3:
        plan["prelude"] = [[h.choice(["limit", "limit", "set", "query"]), h.randrange(4),
                            h.choice([tc, tc, tc, 65536, h.getrandbits(16)])] for _ in range(h.randrange(1, 4))]
        if h.random() < 0.6:
            # another installation in the same process: a unit with the same short address as the
            # one addressed afterwards, holding other values; queries by any selector (half of them
            # the selector that is asked again afterwards)
            plan["prelude_short"] = units[0]["short"]
            plan["prelude_values"] = {str(v): h.getrandbits(16) for v in SPEC_QUERY.values()}
            for p in plan["prelude"]:
                if p[0] == "query":
                    p[1] = (SPEC_QUERY_NAMES.index(plan["selector_name"])
                            if kind == "query" and h.random() < 0.5 else h.randrange(len(SPEC_QUERY_NAMES)))
    if kind == "badarg":
        plan["bad"] = r.choice(["tc-65536", "tc-negative", "tc-huge", "tc-float", "tc-none", "tc-str", "query-int",
                                "query-str", "limit-tc-65536"])
    return plan


def _mk(u, i):
    g = busim.Gear(short=u["short"], groups={k for k in range(16) if u["groups"] >> k & 1}, device_types=[8],
                   name="U%d" % i)
    g.dtr0, g.dtr1, g.dtr2 = u["dtr"]
    g.colour_values = {int(k): v for k, v in u["values"].items()}
    g.tc = 0x1234
    return g


def run_plan(plan):
    res = new_result()
    units = [_mk(u, i) for i, u in enumerate(plan["units"])]
    bus = busim.Bus(units)
    log = EventLog()
    t = units[0]
    dk = plan["dest"]
    if dk == "short":
        dest = GearShort(t.short)
    elif dk == "int":
        dest = t.short
    elif dk == "group":
        dest = GearGroup(plan["dest_group"])
    else:
        dest = GearBroadcast()
    vs = []
    probes = {}

    def V(clause, detail, site=None):
        vs.append(Violation(PROP, clause, detail, driver=plan["kind"], site=site))

    def addressed(u):
        if dk in ("short", "int"):
            return u.short == t.short
        if dk == "group":
            return plan["dest_group"] in u.groups
        return True

    kind = plan["kind"]
    tc = plan["tc"]
    for pk, psel, ptc in plan.get("prelude") or []:
        # earlier calls in the same process (same or another value, another selector),
        # against a scratch unit: judged is only what they may leave behind in the library
        ps = plan.get("prelude_short", 9)
        scratch = busim.Bus([_mk({"short": ps, "groups": 0, "dtr": [1, 2, 3],
                                  "values": plan.get("prelude_values") or {}}, 99)])
        try:
            if pk == "limit":
                pg = SetDT8TcLimit(GearShort(ps), psel, ptc)
            elif pk == "set":
                pg = SetDT8ColourValueTc(GearShort(ps), ptc)
            else:
                pg = QueryDT8ColourValue(GearShort(ps), getattr(colour.QueryColourValueDTR, SPEC_QUERY_NAMES[psel]))
            busim.run_sequence(pg, scratch, cap=60, log=EventLog())
        except Exception:                       # noqa: BLE001 - a prelude with a bad argument simply fails
            pass
        probes["earlier-calls-in-same-process"] = 1
    faults = {plan["fault"][0]: plan["fault"][1]} if plan["fault"] else {}
    sr = None
    transport = plan.get("transport")

    def run(gen_factory, **kw):
        nonlocal log
        if transport:
            sr_, rr_ = drvsim.run_stacked(transport, plan["seed"], units, gen_factory)
            log = rr_.world.log
            bus.t_us = int(rr_.vtime * 1e6)
            probes["stacked-" + transport] = 1
            return sr_
        return busim.run_sequence(gen_factory(), bus, log=log, **kw)
    if kind == "badarg":
        bad = plan["bad"]
        arg = {"tc-65536": 65536, "tc-negative": -1, "tc-huge": 1 << 40, "tc-float": 300.5, "tc-none": None,
               "tc-str": "4000", "limit-tc-65536": 65536}.get(bad)
        try:
            if bad.startswith("query"):
                gen = QueryDT8ColourValue(dest if dk in ("short", "int") else GearShort(t.short),
                                          2 if bad == "query-int" else "ColourTemperatureTC")
            elif bad.startswith("limit"):
                gen = SetDT8TcLimit(dest, 0, arg)
            else:
                gen = SetDT8ColourValueTc(dest, arg)
            sr = busim.run_sequence(gen, bus, cap=50, log=log)
        except Exception as e:                  # noqa: BLE001 - raised when called: fine
            sr = busim.SeqRun()
            sr.status, sr.exc = "raise", e
        probes["bad-argument"] = 1
        if sr.status != "raise":
            V("bad-argument-accepted", "%s: sequence ran to %s (%d commands sent)" % (bad, sr.status, sr.steps), site=bad)
        elif sr.steps > 0:
            V("bad-argument-rejected-late", "%s: %d commands had been sent before %r" % (bad, sr.steps, sr.exc), site=bad)
    elif kind == "set":
        sr = run(lambda: SetDT8ColourValueTc(dest, tc), cap=50)
        if sr.status != "return":
            V("sequence-failed", "SetDT8ColourValueTc(%s, %d): %s %r" % (dk, tc, sr.status, sr.exc), site=dk)
        else:
            for u in units:
                if addressed(u):
                    if u.tc != tc:
                        V("value-not-established", "unit %s: Tc is %d (%#06x) after setting %d (%#06x); unit saw %s" % (
                            u.name, u.tc, u.tc, tc, tc, u.dt8_log), site=dk)
                        break
                    if u.tc_temp is not None:
                        V("not-activated", "unit %s still has a temporary value" % u.name, site=dk)
                        break
                elif u.tc != 0x1234 or u.dt8_log:
                    V("bystander-changed", "unit %s not addressed but reacted: %s" % (u.name, u.dt8_log), site=dk)
                    break
    elif kind == "limit":
        sel = plan["selector"]
        arg = sel
        if plan.get("selector_name"):
            arg = getattr(colour.StoreColourTemperatureTcLimitDTR2, plan["selector_name"], None)
            probes["limit-selector-by-name"] = 1
            if arg is None:
                V("selector-missing", "StoreColourTemperatureTcLimitDTR2.%s does not exist" % plan["selector_name"])
                arg = sel
        sr = run(lambda: SetDT8TcLimit(dest, arg, tc), cap=50)
        if sr.status != "return":
            V("sequence-failed", "SetDT8TcLimit(%s, %d, %d): %s %r" % (dk, sel, tc, sr.status, sr.exc), site=dk)
        else:
            for u in units:
                if addressed(u):
                    if u.tc_limits != {sel: tc}:
                        V("limit-not-stored", "unit %s: limits %s after storing selector %d := %d" % (
                            u.name, u.tc_limits, sel, tc), site=dk)
                        break
                    probes["limit-stored"] = 1
                elif u.tc_limits:
                    V("bystander-changed", "unit %s not addressed but stored %s" % (u.name, u.tc_limits), site=dk)
                    break
    else:
        sel = getattr(colour.QueryColourValueDTR, plan.get("selector_name") or "", None)
        if sel is None and plan.get("selector_name"):
            V("selector-missing", "QueryColourValueDTR.%s does not exist" % plan["selector_name"])
        if sel is None:
            sel = colour.QueryColourValueDTR(plan["selector"])
        stored = t.colour_values.get(plan["selector"])
        sr = run(lambda: QueryDT8ColourValue(dest, sel), answer_faults=faults, cap=50)
        fired = {c[0]: c[4] for c in sr.commands if c[4]}
        if stored is None or (stored >> 8) == 0xFF or 2 in fired or 3 in fired:
            exp = None
        else:
            exp = stored
        if stored is not None and (stored >> 8) == 0xFF:
            probes["msb-mask"] = 1
        if 2 in fired:
            probes["answer-dropped-msb" if fired[2] == "drop" else "answer-garbled"] = 1
        if 3 in fired:
            probes["answer-dropped-lsb" if fired[3] == "drop" else "answer-garbled"] = 1
        if sr.status != "return":
            V("sequence-failed", "QueryDT8ColourValue(%s): %s %r (fault %s)" % (sel.name, sr.status, sr.exc, plan["fault"]),
              site=type(sr.exc).__name__ if sr.exc else sr.status)
        elif sr.value != exp:
            V("wrong-value", "QueryDT8ColourValue(%s): unit stores %s, faults %s, returned %r, expected %r" % (
                sel.name, stored, fired, sr.value, exp), site="faulted" if fired else "fault-free")
    if tc in EDGES:
        probes["tc-edge-value"] = 1
    if dk == "group":
        probes["group-destination"] = 1
    if dk == "broadcast":
        probes["broadcast-destination"] = 1
    probes["stale-dtr"] = 1
    for v in vs:
        add_violation(res, v)
    res["digest"] = log.digest()
    res["shape"] = log.shape() if transport else log.digest()[:16]
    res["events"] = len(log)
    res["vtime_s"] = bus.t_us * 1e-6
    res["nontrivial"] = bool(sr) and sr.steps >= 3
    res["probes"] = probes
    if plan["fault"] and sr:
        res["faults"] = {"answer-" + c[4]: 1 for c in sr.commands if c[4]}
    if res["violations"]:
        res["plan"] = plan
    res["sample"] = {"seed": plan["seed"], "transport": transport or "direct", "kind": kind, "dest": dk, "tc": tc, "fault": plan["fault"],
                     "selector": plan.get("selector"), "status": sr.status if sr else None,
                     "commands": [(str(c[1]), c[3]) for c in (sr.commands if sr else [])[:6]]}
    return res


def run_seed(seed, tier):
    return [run_plan(gen_plan(seed, tier))]


def shrink(plan):
    for i in range(len(plan.get("prelude") or [])):
        p = copy.deepcopy(plan)
        del p["prelude"][i]
        yield p
    if plan.get("transport"):
        p = copy.deepcopy(plan)
        del p["transport"]
        yield p
    for i in range(1, len(plan["units"])):
        p = copy.deepcopy(plan)
        del p["units"][i]
        yield p
    if plan["fault"]:
        p = copy.deepcopy(plan)
        p["fault"] = None
        yield p
    for u in range(len(plan["units"])):
        if plan["units"][u]["dtr"] != [0, 0, 0]:
            p = copy.deepcopy(plan)
            p["units"][u]["dtr"] = [0, 0, 0]
            yield p
