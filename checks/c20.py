"""C20 - observed bus traffic is reported once, decoded in context, paired up.
Engine: drvsim.  Tridonic: full bus watcher against the reference of
sim/refs/buswatch.py; LUBA / SCI: distribution of received forward frames to
DistributorQueue children; hasseb: own traffic."""
import copy

import dali.frame

from sim import cmds, drvsim, plans
from sim.core import Violation
from sim.oracles import base_result
from sim.refs import buswatch
from sim.runner import add_violation
from sim.hidsim import T_BF

PROP = "C20"
LEVEL = "exploration"
TIERS = {
    "quick": {"seeds": 60000, "chunk": 500, "wall_s": 300, "shrink_s": 40},
    "thorough": {"seeds": 1500000, "chunk": 1000, "wall_s": 3000, "shrink_s": 120},
}
RULE = ("one seed -> one plan: driver by seed mod 8 (tridonic 4/8, luba 2/8, sci 1/8, hasseb 1/8); a history of "
        "1-8 bus transactions of other masters (plain, query+answer, query+silence with or without explicit "
        "no-frame report, query+framing error, config twice / once / interrupted by another frame or a backward "
        "frame, EnableDeviceType + extended command, EnableDeviceType + something else + command, 24-bit "
        "commands and events with and without instance map, unknown frames), every gap drawn clearly shorter "
        "(<= 150 ms) or clearly longer (>= 250 ms) than the watcher's 200 ms timer, interleaved with 0-2 callers' "
        "own sends, 0-3 subscribers joining/leaving at instants that never coincide with a report. A run whose "
        "realised gaps fall into the 150-250 ms band while something is pending is set aside. Non-trivial iff "
        ">= 2 reports were expected and at least one pairing/timeout/context decision was involved; "
        "distinct = distinct (event kind, actor) sequence.")
ASSUMPTIONS = [
    "reference watcher per DESIGN.md appendix B; interpretation of a frame is delegated to the library's own decoder (C01/C12 not judged)",
    "Tridonic reports: 0x73/0x76 forward frame, 0x72 backward frame, 0x71 no frame, 0x77 status 3 framing error; other masters' traffic as mode 0x11; the documented firmware quirk as an option",
    "no backward frame between EnableDeviceType and its command; no ignorable packet inside a pending window",
    "serial receivers: every received 16/24-bit frame is one item; SCI receive layout as the driver reads it",
]
COMPONENTS = {
    "real": ["dali.driver.hid.tridonic (_handle_read, _bus_watch, _callback)", "dali.driver.hid.hasseb (bus_traffic of own frames)",
             "dali.driver.serial LubaProtocol/SCIRS232Protocol receive path, DistributorQueue", "asyncio (CPython)"],
    "stub": ["asyncio.wait_for of CPython 3.8-3.11 (transcribed, sim/legacy_asyncio.py) on ~25 % of the asyncio-driver runs", "VirtualLoop", "os/glob/random", "serial_asyncio", "gateway firmware, bus, other masters"],
}
PROBES = ["gateway-lost-mid-history", "subscriber-raised", "no-permanent-subscriber", "query-timeout", "query-answered", "query-resolved-by-next-frame", "twice-ok", "twice-failed-timeout",
          "twice-failed-mismatch", "twice-failed-backward", "twice-failed-noframe", "dt-context-used",
          "dt-context-expired", "event-decoded-through-map", "unknown-frame", "own-send-interleaved",
          "subscriber-left", "subscriber-joined", "traffic-burst", "explicit-no-frame",
          "ambiguous-gap-set-aside", "quirk-fired"]


def _foreign_cmd(r, cats):
    s = cmds.gen_cmd(r, cats)
    return s, cmds.mk_cmd(s)


def gen_traffic(r, driver, n):
    """Items for drvsim traffic; t_us filled in cumulatively."""
    items = []
    t = r.choice([2000, 50000, 300000])
    serial = driver in ("luba", "sci")

    def gap(after_pending):
        # clearly shorter or clearly longer than 200 ms (bus time included)
        if r.random() < 0.5:
            return r.choice([0, 0, 1000, 20000, 60000, 100000])
        return r.choice([300000, 400000, 1000000])

    for _ in range(n):
        k = r.choice(["plain", "query-answer", "query-silent", "query-noframe", "query-error",
                      "twice-ok", "twice-once", "twice-interrupted", "twice-backward", "twice-other-length",
                      "edt-ext", "edt-other-ext", "edt-edt-ext", "24bit", "event", "unknown", "burst"])
        if k == "plain":
            s, c = _foreign_cmd(r, ["plain16", "plain24"])
            items.append({"t_us": t, "frames": [[s[0], s[1]]], "kind": k})
        elif k in ("query-answer", "query-silent", "query-noframe", "query-error"):
            s, c = _foreign_cmd(r, ["query16", "query24"])
            it = {"t_us": t, "frames": [[s[0], s[1]]], "kind": k}
            if k == "query-answer":
                it["answer"] = ["value", r.randrange(256)]
            elif k == "query-error":
                it["answer"] = ["error", 0]
            elif k == "query-noframe" and not serial:
                it["noframe"] = True
            items.append(it)
        elif k == "twice-ok":
            s, c = _foreign_cmd(r, ["twice16", "twice24"])
            items.append({"t_us": t, "frames": [[s[0], s[1]], [s[0], s[1]]], "kind": k,
                          "gap2_us": r.choice([14000, 30000, 60000])})
        elif k == "twice-once":
            s, c = _foreign_cmd(r, ["twice16", "twice24"])
            items.append({"t_us": t, "frames": [[s[0], s[1]]], "kind": k})
            if not serial and r.random() < 0.4:
                items[-1]["noframe"] = True
        elif k == "twice-interrupted":
            s, c = _foreign_cmd(r, ["twice16", "twice24"])
            s2, c2 = _foreign_cmd(r, ["plain16", "query16", "twice16"])
            items.append({"t_us": t, "frames": [[s[0], s[1]], [s2[0], s2[1]]], "kind": k,
                          "gap2_us": r.choice([14000, 40000])})
        elif k == "twice-other-length":
            # a configuration command seen once, then a 24-bit frame with the very same value (first byte 0x00:
            # an event of the input device at short address 0): no repeat - and a frame of its own
            s, c = _foreign_cmd(r, ["twice16"])
            items.append({"t_us": t, "frames": [[16, s[1]], [24, s[1]]], "kind": k, "gap2_us": r.choice([14000, 30000])})
        elif k == "twice-backward":
            s, c = _foreign_cmd(r, ["twice16"])
            items.append({"t_us": t, "frames": [[s[0], s[1]]], "kind": k,
                          "answer": ["value", r.randrange(256)]})
        elif k in ("edt-ext", "edt-other-ext", "edt-edt-ext"):
            s, c = _foreign_cmd(r, ["dt_plain", "dt_query", "dt_twice"])
            fr = [[16, cmds.edt_frame(s[2])]]
            if k == "edt-edt-ext":
                # announced twice (the same type again, or another one first): the last one counts
                fr.insert(0, [16, cmds.edt_frame(r.choice([s[2], s[2], 1, 6, 8, r.randrange(1, 255)]))])
            if k == "edt-other-ext":
                s2, _ = _foreign_cmd(r, ["plain16", "plain24"])
                fr.append([s2[0], s2[1]])
            fr.append([s[0], s[1]])
            items.append({"t_us": t, "frames": fr, "kind": k, "gap2_us": r.choice([14000, 25000])})
            if c.response is not None and r.random() < 0.6:
                items[-1]["answer"] = ["value", r.randrange(256)]
        elif k == "24bit":
            s, c = _foreign_cmd(r, ["plain24", "query24", "twice24"])
            items.append({"t_us": t, "frames": [[s[0], s[1]]], "kind": k})
        elif k == "event":
            # event messages: bit 16 clear in a 24-bit frame
            v = r.getrandbits(24) & ~(1 << 16)
            items.append({"t_us": t, "frames": [[24, v]], "kind": k})
        elif k == "unknown":
            v = r.choice([0xA105, 0xA300 | r.randrange(256), 0xCB00 | r.randrange(256),
                          (r.randrange(0xCC, 0xFC) | 1) << 8 | r.randrange(256)])
            x = r.random()
            if x < 0.3:
                # a 24-bit special command (0xC1 ...) with whatever parameter byte a foreign master chose,
                # reserved values included; some of them are send-twice
                fr = [[24, 0xC10000 | (r.choice([0x00, 0x01, 0x01, 0x02, 0x03, 0x04, 0x05, 0x08, r.randrange(64)]) << 8)
                       | r.choice([0x00, 0x3F, 0x40, 0x7E, 0x7F, 0x80, 0xFE, 0xFF, r.randrange(256)])]]
                if r.random() < 0.5:
                    fr.append(list(fr[0]))
                items.append({"t_us": t, "frames": fr, "kind": k, "gap2_us": r.choice([14000, 30000])})
            elif x < 0.5:
                items.append({"t_us": t, "frames": [[24, 0xFE0000 | r.getrandbits(16) | (1 << 16)]], "kind": k})
            else:
                items.append({"t_us": t, "frames": [[16, v]], "kind": k})
        elif k == "burst":
            fr = []
            for _ in range(r.randrange(2, 4)):
                s, c = _foreign_cmd(r, ["plain16", "query16", "twice16", "plain24"])
                fr.append([s[0], s[1]])
            items.append({"t_us": t, "frames": fr, "kind": k, "gap2_us": 13500})
        t += gap(True) + 20000
    return items


class SubBoom(Exception):
    """Raised by a harness subscriber callback."""


def gen_plan(seed, tier="quick"):
    r = plans.rng_for(seed, PROP)
    driver = ("tridonic", "luba", "tridonic", "sci", "tridonic", "luba", "tridonic", "hasseb")[seed % 8]
    knobs = plans.gen_knobs(r, driver, allow_batch=True)
    knobs["latency"] = r.choice(["fast", "nominal"])
    if r.random() < 0.6:
        knobs["inst_map"] = [[r.randrange(64), r.randrange(32), r.choice([0, 1, 2, 3, 4, 6, 31])]
                             for _ in range(r.randrange(1, 5))]
        knobs["inst_map_late"] = r.random() < 0.4      # handed over empty, filled afterwards
    plan = {"engine": "drvsim", "property": PROP, "driver": driver, "seed": seed, "knobs": knobs,
            "callers": [], "traffic": [], "subs": [], "settle_s": 0.6, "deadline_s": 600}
    if driver != "hasseb":
        plan["traffic"] = gen_traffic(r, driver, r.randrange(1, 9 if tier == "thorough" else 7))
        if knobs.get("inst_map") and r.random() < 0.7:
            # make some events hit the map
            a, i, _t = r.choice(knobs["inst_map"])
            v = (a << 17) | (1 << 15) | (i << 10) | r.choice([0, 1, 2, 5, 9, 11, 12, 14, r.getrandbits(10)])
            plan["traffic"].append({"t_us": plan["traffic"][-1]["t_us"] + r.choice([20000, 400000]),
                                    "frames": [[24, v & ~(1 << 16)]], "kind": "event-mapped"})
            if knobs.get("inst_map_late") and driver in ("luba", "sci") and r.random() < 0.6:
                # the application learns the instance types while traffic is flowing: the same event is
                # seen before and after the map knows its instance
                t_ev = plan["traffic"][-1]["t_us"]
                plan["traffic"].append({"t_us": t_ev + 500000, "frames": [[24, v & ~(1 << 16)]], "kind": "event-mapped"})
                knobs["inst_map_fill_at_us"] = t_ev + 250000
                plan["settle_s"] = 1.2
    ncall = r.choice([0, 0, 1, 1, 2]) if driver != "hasseb" else r.choice([1, 2, 3])
    if ncall:
        cats = plans.driver_cats(driver)
        if driver in ("luba", "sci"):
            cats = [c for c in cats if not c.startswith("dt_")]
        plan["callers"] = plans.gen_callers(r, driver, ncall, 3, mix=(0.8, 0.0, 0.2),
                                            allow_raise=False, allow_cancel=False, cats=cats, repeat_object=0.25,
                                            p_error=0.1 if driver in ("tridonic",) else 0.0)
        span = (plan["traffic"][-1]["t_us"] if plan["traffic"] else 200000)
        for c in plan["callers"]:
            c["start_us"] = r.randrange(0, span + 1)
    span = max([it["t_us"] for it in plan["traffic"]] + [300000])
    if driver == "tridonic" and r.random() < 0.15:
        # the gateway drops out in the middle of the history and comes back: whatever the watcher
        # remembered (a device type, a pending command) belongs to the old connection
        plan["loss"] = {"t_us": r.randrange(0, span + 100000), "mode": r.choice(["eof", "oserror"]),
                        "return_after_us": r.choice([30000, 120000, 400000])}
        knobs["reconnect_interval"] = 0.05
        plan["settle_s"] = 1.2
    b = plans.rng_for(seed, PROP + "-status")
    if driver == "tridonic" and b.random() < 0.2:
        # bus status reports of the gateway (not a frame, not an answer): also between a forward frame
        # and its answer, between the two frames of a configuration command, after EnableDeviceType
        bs = []
        for _ in range(b.randrange(1, 4)):
            base = b.choice(plan["traffic"])["t_us"] if plan["traffic"] and b.random() < 0.8 else b.randrange(0, span + 1)
            bs.append([base + b.choice([3000, 18000, 20000, 22000, 26000, 30000, 45000, 100000, 180000]),
                       b.choice([1, 2, 4, 4, 5, 6, 6, 0, 7])])
        plan["bus_status"] = sorted(bs)
    # in some runs nobody is subscribed from the start: a subscriber may join in
    # the middle of a transaction the watcher is already tracking
    plan["permanent"] = r.random() < 0.6
    for _ in range(r.choice([0, 1, 2, 3]) if plan["permanent"] else r.choice([1, 2, 3])):
        reg = r.choice([0, 0, r.randrange(0, span)])
        un = r.choice([None, None, reg + r.randrange(1000, span + 400000)])
        plan["subs"].append({"reg_us": reg, "unreg_us": un})
        if driver in ("tridonic", "hasseb") and r.random() < 0.2:
            # a callback that raises on every k-th report: the others must not notice
            plan["subs"][-1]["raise_every"] = r.choice([1, 1, 2, 3])
    return plan


# ---------------------------------------------------------------------------
def _hooks(plan, ctx):
    def connected(rr):
        world, driver = rr.world, rr.driver
        drv = plan["driver"]
        ctx["got"] = {}
        ctx["subs"] = []
        t0 = world.loop.time()
        ctx["t0_us"] = world.now_us()

        def add_sub(name, reg_us, unreg_us, raise_every=None):
            rec = {"name": name, "reg": None, "unreg": None, "handle": None}
            ctx["subs"].append(rec)
            ctx["got"][name] = []

            def do_reg():
                rec["reg"] = world.loop.time() * 1e6
                if drv in ("tridonic", "hasseb"):
                    def cb(d, c, resp, flag, name=name):
                        ctx["got"][name].append((world.now_us(), c, resp, flag))
                        if raise_every and len(ctx["got"][name]) % raise_every == 0:
                            world.probe("subscriber-raised")
                            raise SubBoom(name)
                    rec["handle"] = driver.bus_traffic.register(cb)
                else:
                    rec["handle"] = driver.new_dali_rx_queue()
                world.log.add(world.loop.time(), "sub-reg", name, None)

            def do_unreg():
                rec["unreg"] = world.loop.time() * 1e6
                if drv in ("tridonic", "hasseb"):
                    rec["handle"].unregister()
                else:
                    driver._protocol.queue_rx_dali.del_handler(rec["handle"])
                world.log.add(world.loop.time(), "sub-unreg", name, None)
            if reg_us is None:
                do_reg()
            else:
                # never at a report instant: reports and timeouts are on integer us
                world.loop.at(t0 + (reg_us + 0.37) * 1e-6, do_reg)
            if unreg_us is not None:
                world.loop.at(t0 + (unreg_us + 0.61) * 1e-6, do_unreg)
        if plan.get("loss"):
            ls = plan["loss"]
            world.loop.at(t0 + (ls["t_us"] + 0.13) * 1e-6,
                          lambda: rr.dev.lose(ls["mode"], ls["return_after_us"]))
        if plan.get("permanent", True):
            add_sub("S*", None, None)
        for i, s in enumerate(plan.get("subs", [])):
            add_sub("S%d" % i, s["reg_us"], s.get("unreg_us"), s.get("raise_every"))

    return {"connected": connected}


def judge(rr, ctx):
    out = []
    plan = rr.plan
    drv = plan["driver"]

    def V(clause, detail, site=None):
        out.append(Violation(PROP, clause, detail, driver=drv, site=site))

    if rr.connect_error is not None:
        V("connect-failed", repr(rr.connect_error))
        return out, {}
    info = {"expected": 0}
    alt = None
    imap = getattr(rr.driver, "_verif_inst_map", None) or rr.driver.dev_inst_map
    end_us = rr.world.now_us()
    if drv == "tridonic":
        # one watcher life per connection: what was pending or remembered when the gateway
        # was found gone is dropped with it (the watch task is cancelled, no report)
        emissions, ambiguous = [], False
        emissions_alt = []
        gens = sorted(set(rr.dev.delivered_gens))
        dets = [t for t, _how in rr.dev.detections]
        for gi, g in enumerate(gens):
            mine = [(t, d) for (t, d), gg in zip(rr.dev.delivered, rr.dev.delivered_gens) if gg == g]
            # the watcher of a connection starts when its handshake (two init replies) is through;
            # what the gateway reported before that is worked off at that moment, back to back
            inits = [t for t, d in mine if d[0] == 0x01]
            if len(inits) < 2:
                continue
            t_ready = inits[1]
            reports = [(max(t, t_ready), buswatch.classify_tridonic(d)) for t, d in mine if d[0] in (0x11, 0x12)]
            seg_end = end_us
            if gi < len(gens) - 1 or (rr.dev.losses and len(gens) == len(rr.dev.losses)):
                later = [t for t in dets if not reports or t >= reports[0][0]] if dets else []
                seg_end = min(later) if later else end_us
                if reports and seg_end - reports[-1][0] < 1000:
                    ambiguous = True        # a report and the loss within the same millisecond
            em, amb = buswatch.reference(reports, imap, end_us=seg_end)
            emissions += em
            ambiguous = ambiguous or amb
            if any(c is not None and c[0] == "status" for _t, c in reports):
                em2, amb2 = buswatch.reference(reports, imap, end_us=seg_end, status_restarts=True)
                ambiguous = ambiguous or amb2
            else:
                em2 = em
            emissions_alt += em2
        if rr.dev.losses:
            rr.world.probe("gateway-lost-mid-history")
        if ambiguous:
            rr.world.probe("ambiguous-gap-set-aside")
            return out, {"set_aside": True}
        info["emissions"] = emissions
        if [(e[0], str(e[1]), e[3]) for e in emissions_alt] != [(e[0], str(e[1]), e[3]) for e in emissions]:
            alt = emissions_alt
    elif drv == "hasseb":
        emissions = _hasseb_reference(rr)
    else:
        emissions = _serial_reference(rr, imap)
    info["expected"] = len(emissions)
    info["em"] = emissions
    for e in rr.unhandled:
        ex = e.get("exception")
        if isinstance(ex, SubBoom):
            continue                    # the subscriber's own exception, reported by the loop: as it should be
        V("exception-escaped-callback", "%s: %r" % (e.get("message"), ex),
          site=type(ex).__name__ if ex else None)
    if getattr(rr.dev, "rx_exceptions", None):
        V("exception-in-data-received", "%s" % (rr.dev.rx_exceptions[:2],),
          site=rr.dev.rx_exceptions[0][2].split("(")[0])
    subs_out = _judge_subs(ctx, drv, emissions)
    if subs_out and alt is not None:
        # a bus status report fell into a watcher timeout: the other reading of "its timeout elapses"
        other = _judge_subs(ctx, drv, alt)
        if not other:
            rr.world.probe("timeout-restarted-by-status-report")
            subs_out = []
            info["em"] = alt
    for v_ in subs_out:
        V(*v_[:2], site=v_[2])
    return out, info


def _judge_subs(ctx, drv, emissions):
    res = []

    def V(clause, detail, site=None):
        res.append((clause, detail, site))

    for sub in ctx["subs"]:
        name = sub["name"]
        lo = sub["reg"] if sub["reg"] is not None else -1
        hi = sub["unreg"] if sub["unreg"] is not None else float("inf")
        if sub["reg"] is None:
            exp = []
        else:
            exp = [e for e in emissions if lo < e[0] < hi]
        if drv in ("tridonic", "hasseb"):
            got = ctx["got"][name]
        else:
            q = sub["handle"]
            got = []
            while q is not None and not q.empty():
                c = q.get_nowait()
                got.append((None, c, None, False))
        site_sub = "permanent" if name == "S*" else ("left" if sub["unreg"] is not None else "joined")
        for i in range(max(len(exp), len(got))):
            if i >= len(got):
                V("report-missing", "subscriber %s (%s): expected report #%d %s never delivered; got %d of %d" % (
                    name, site_sub, i, _fmt(exp[i]), len(got), len(exp)),
                  site=_site(exp[i]))
                break
            if i >= len(exp):
                V("report-extra", "subscriber %s (%s): unexpected report #%d %s (expected %d)" % (
                    name, site_sub, i, _fmt(got[i]), len(exp)), site=_site(got[i]))
                break
            d = buswatch.same_emission(exp[i], got[i])
            if d:
                V(_clause(exp[i], got[i]), "subscriber %s (%s): report #%d: %s" % (name, site_sub, i, d),
                  site=_site(exp[i]))
                break
    return res


def _fmt(e):
    r = e[2]
    rs = None if r is None else "%s(%s)" % (type(r).__name__, r.raw_value)
    return "(%s, %s, %s)" % (e[1], rs, e[3])


def _site(e):
    c = e[1]
    if c.sendtwice:
        return "config"
    if c.response is not None:
        return "query"
    if len(c.frame) == 24 and not c.frame[16]:
        return "event"
    if type(c).__name__.startswith("Unknown") or type(c) is __import__("dali.command").command.Command:
        return "unknown"
    return "plain"


def _clause(exp, got):
    ec, gc = exp[1], got[1]
    if ec.frame == gc.frame and type(ec) is not type(gc):
        return "decoded-in-wrong-context"
    if ec.frame != gc.frame:
        return "report-out-of-order-or-wrong-frame"
    if bool(exp[3]) != bool(got[3]):
        return "config-verdict-wrong"
    return "response-pairing-wrong"


def _hasseb_reference(rr):
    """Own frames only: every command the driver transmits (including the
    EnableDeviceType it inserts) is reported once with its response."""
    ems = []
    prev_dt = 0
    i = 0
    sends = rr.dev.sends
    while i < len(sends):
        s = sends[i]
        c = cmds.mk_cmd([16, s["value"], prev_dt])
        if c.sendtwice and i + 1 < len(sends) and sends[i + 1]["value"] == s["value"]:
            i += 1
        prev_dt = c.param if isinstance(c, cmds.EnableDeviceType) else 0
        o = s.get("outcome", ("silent",))
        resp = None
        if c.response is not None:
            if o[0] == "silent":
                resp = c.response(None)
            elif o[0] == "value":
                resp = c.response(dali.frame.BackwardFrame(o[1]))
            else:
                resp = c.response(dali.frame.BackwardFrameError(o[1] if len(o) > 1 else 0))
        ems.append((s["t_us"], c, resp, False))
        i += 1
    # time of emission is when the command completed; order is what matters
    # here, subscribers of the hasseb runs are permanent
    return [(10 ** 17, c, r, f, "immediate") for (_, c, r, f) in ems]


def _serial_reference(rr, imap):
    ems = []
    dt = 0
    filled = getattr(rr.driver, "_verif_map_filled_us", 0)
    from dali.device.helpers import DeviceInstanceTypeMapper
    empty = DeviceInstanceTypeMapper()
    for t, bits, value in getattr(rr.dev, "observed", []):
        f = dali.frame.ForwardFrame(bits, value)
        # decoded in the context in force when the frame arrives: the map as it is *then*
        use = imap if (filled is not None and t >= filled) or not hasattr(rr.driver, "_verif_map_filled_us") else empty
        c = cmds.decode(f, dt, use)
        dt = c.param if isinstance(c, cmds.EnableDeviceType) else 0
        ems.append((t, c, None, False, "immediate"))
    return ems


def run_plan(plan):
    ctx = {}
    if plan["driver"] == "hasseb":
        plan = dict(plan, subs=[], permanent=True)
    rr = drvsim.run(plan, hooks=_hooks(plan, ctx))
    res = base_result(rr)
    w = rr.world
    vs, info = judge(rr, ctx) if ctx.get("subs") is not None else ([], {})
    for v in vs:
        add_violation(res, v)
    em = info.get("em", [])
    for k, n in getattr(buswatch.reference, "stats", {}).items():
        if plan["driver"] == "tridonic":
            w.probe(k, n)
    for e in em:
        c = e[1]
        if len(e) > 4 and e[4] != "immediate":
            w.probe(e[4])
        if len(c.frame) == 24 and not c.frame[16] and type(c).__module__ != "dali.command" \
                and "Unknown" not in type(c).__name__ and "Ambiguous" not in type(c).__name__ \
                and plan["knobs"].get("inst_map"):
            w.probe("event-decoded-through-map")
        if c.devicetype:
            w.probe("dt-context-used")
        if len(c.frame) == 24 and not c.frame[16]:
            w.probe("event")
        if type(c).__name__.startswith("Unknown"):
            w.probe("unknown-frame")
    kinds = {it.get("kind") for it in plan.get("traffic", [])}
    for k in kinds:
        w.probe("traffic-" + str(k))
    if plan["callers"] and plan.get("traffic"):
        w.probe("own-send-interleaved")
    if not plan.get("permanent", True):
        w.probe("no-permanent-subscriber")
    for s in plan.get("subs", []):
        w.probe("subscriber-left" if s.get("unreg_us") is not None else "subscriber-joined")
    if getattr(rr.dev, "quirk_fired", 0):
        w.probe("quirk-fired")
    res["nontrivial"] = len(em) >= 2 and any(e[1].sendtwice or e[1].response is not None or e[1].devicetype
                                             for e in em)
    res["probes"] = dict(w.probes)
    if res["violations"]:
        res["plan"] = plan
    res["sample"] = {"seed": plan["seed"], "driver": plan["driver"],
                     "traffic": [(it.get("kind"), it["t_us"], it["frames"], it.get("answer")) for it in plan.get("traffic", [])],
                     "subs": plan.get("subs"),
                     "expected": [_fmt(e) for e in em][:12]}
    return res


def run_seed(seed, tier):
    return [run_plan(gen_plan(seed, tier))]


def shrink(plan):
    for p in plans.shrink(plan):
        yield p
    for i, it in enumerate(plan.get("traffic", [])):
        if len(it["frames"]) > 1:
            for k in range(len(it["frames"])):
                p = copy.deepcopy(plan)
                del p["traffic"][i]["frames"][k]
                yield p
        for fld in ("answer", "noframe"):
            if it.get(fld):
                p = copy.deepcopy(plan)
                del p["traffic"][i][fld]
                yield p
    if plan["knobs"].get("inst_map"):
        p = copy.deepcopy(plan)
        del p["knobs"]["inst_map"]
        yield p
