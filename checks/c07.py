"""C07 - commissioning terminates and assigns distinct, permitted short
addresses.  Engine busim: dali.sequences.Commissioning stepped against a
population of IEC 62386-102 gear models whose random-address draws are the
adversary."""
import copy

from dali.exceptions import ProgramShortAddressFailure
from dali.sequences import Commissioning

from sim import busim, drvsim, plans
from sim.core import EventLog, Violation
from sim.runner import add_violation, new_result

PROP = "C07"
LEVEL = "exploration"
TIERS = {
    "quick": {"seeds": 50000, "chunk": 250, "wall_s": 300, "shrink_s": 45, "per_run_wall_s": 120},
    "thorough": {"seeds": 800000, "chunk": 400, "wall_s": 3000, "shrink_s": 120, "per_run_wall_s": 240},
}
RULE = ("one seed -> one population of 0-70 gear (mostly <= 8; short address none / unique / duplicated) and one call of "
        "Commissioning(available_addresses in {None, empty, small, sparse, containing in-use addresses}, readdress, dry_run). "
        "On a quarter of the seeds the units are found in arbitrary initialisation states (an earlier run was aborted), on 15 % the sequence is run a second time with the same arguments object. Each unit draws its random addresses from a plan-given stream: 0-6 adversarial rounds over a per-run address space "
        "that is tiny (1-8 values), pinned to 0 / 0xFFFFFF, or equal to another unit's next draw, followed by a unique final "
        "value (clashing units eventually differ). Unit faults: does not store / does not verify the programmed address. "
        "Non-trivial iff >= 2 units took part and (a clash forced a restart or addresses ran out or a unit fault fired or "
        "pre-existing addresses had to be avoided); distinct = distinct (command, outcome) sequence.")
ASSUMPTIONS = [
    "gear model per DESIGN.md appendix A.1: INITIALISE (twice) enables all / unaddressed / one address; RANDOMISE (twice) and PROGRAM / VERIFY / QUERY SHORT ADDRESS act in initialisation states ENABLED and WITHDRAWN ('withdrawn gear shall not be excluded from the initialisation process'), COMPARE only when ENABLED; TERMINATE disables",
    "no answer loss is injected here: a lost QueryControlGearPresent answer makes an in-use address look free, which no sequence can survive and the property does not ask for",
    "several YES answers collide into a framing error",
]
COMPONENTS = {"real": ["dali.sequences.Commissioning / _find_next", "dali.gear.general initialisation commands and responses"],
              "stub": ["bus and control gear incl. the random-address generator (sim/busim.py)", "driver"]}
PROBES = ["options-by-position", "second-line-commissioned-concurrently", "units-found-in-initialisation-state", "second-run-same-arguments", "stacked-tridonic", "stacked-hasseb", "clash-restart", "two-clash-rounds", "redraw-equals-withdrawn-unit", "addresses-exhausted", "address-0xffffff",
          "address-0", "preexisting-duplicates", "unit-does-not-store", "unit-does-not-verify", "dry-run", "readdress",
          "more-than-64-units", "empty-bus", "in-use-address-in-permitted-set"]


def gen_plan(seed, tier="quick"):
    r = plans.rng_for(seed, PROP)
    n = r.choice([0, 1, 2, 2, 3, 3, 4, 5, 6, 8, 8, 12 if r.random() < 0.5 else 5,
                  (r.choice([20, 40, 64, 65, 70]) if r.random() < (0.25 if tier == "thorough" else 0.04) else 3)])
    rounds = r.choice([0, 0, 1, 1, 2, 3, 6 if r.random() < 0.2 else 1])
    space_kind = r.choice(["tiny", "tiny", "pinned0", "pinnedmax", "normal", "neighbour"])
    if space_kind == "tiny":
        space = [r.getrandbits(24) for _ in range(r.randrange(1, 9))]
        if r.random() < 0.3:
            space = [x & 0xFF for x in space]          # clashes deep in the low bits
        if r.random() < 0.3:
            space = [r.choice([0, 1, 0xFFFFFF, 0xFFFFFE, 0x800000, 0x7FFFFF]) for _ in space]
    elif space_kind == "pinned0":
        space = [0]
    elif space_kind == "pinnedmax":
        space = [0xFFFFFF]
    else:
        space = None
    finals = r.sample(range(1, 0xFFFFFE), n) if n else []
    if n and r.random() < 0.15:
        finals[r.randrange(n)] = r.choice([0, 0xFFFFFF])
    units = []
    used = []
    for i in range(n):
        x = r.random()
        if x < 0.5:
            short = None
        elif x < 0.85 or not used:
            short = r.choice([a for a in range(64) if a not in used] or [None])
        else:
            short = r.choice(used)                      # duplicated address
        if short is not None:
            used.append(short)
        if space is not None:
            stream = [r.choice(space) for _ in range(rounds)]
        else:
            stream = [r.getrandbits(24) for _ in range(rounds)]
        units.append({"short": short, "stream": stream + [finals[i]], "fault": None})
    if space_kind == "neighbour" and n >= 2:
        # a unit's later draw equals what another unit draws in that round
        for _ in range(r.randrange(1, 4)):
            a, b = r.sample(range(n), 2)
            k = r.randrange(0, rounds + 1)
            sa, sb = units[a]["stream"], units[b]["stream"]
            if k < len(sa) - 1 and k < len(sb) - 1:
                sa[k] = sb[k]
            elif k < len(sa) - 1:
                sa[k] = sb[-1]
    if n and r.random() < 0.12:
        units[r.randrange(n)]["fault"] = r.choice(["no-store", "no-verify"])
    av = r.choice(["all", "all", "all", "empty", "small", "sparse", "with-in-use", "one"])
    if av == "all":
        avail = None
    elif av == "empty":
        avail = []
    elif av == "small":
        avail = sorted(r.sample(range(64), r.randrange(1, 5)))
    elif av == "sparse":
        avail = sorted(r.sample(range(64), r.randrange(5, 30)))
    elif av == "one":
        avail = [r.randrange(64)]
    else:
        avail = sorted(set(r.sample(range(64), r.randrange(2, 10)) + used[:3]))
    if avail is not None and r.random() < 0.3:
        r.shuffle(avail)
    plan = {"engine": "busim", "property": PROP, "seed": seed, "units": units, "available": avail,
            "readdress": r.random() < 0.4, "dry_run": r.random() < 0.15}
    plan["call_form"] = plans.rng_for(seed, PROP + "-call").choice(["kw", "kw", "pos", "pos2", "minimal"])
    h = plans.rng_for(seed, PROP + "-history")
    if h.random() < 0.25:
        # the bus is not fresh: an earlier run was aborted within the gear's 15 min
        # initialisation period - units are found in any initialisation state
        for u in plan["units"]:
            u["init0"] = h.choice(["disabled", "enabled", "withdrawn", "withdrawn"])
    if h.random() < 0.15:
        # the application runs it again later with the very same arguments object
        plan["second_run"] = True
    if plan["available"] is not None and h.random() < 0.3:
        plan["avail_form"] = h.choice(["tuple", "set", "iter", "gen", "filter"])
    if h.random() < 0.15:
        # a second DALI line is being commissioned by the same process at the same time
        plan["companion"] = {"units": [[h.getrandbits(24), h.getrandbits(24)][:h.randrange(1, 3)] + [0x100000 + 7919 * i]
                                       for i in range(h.randrange(2, 5))],
                             "pace": [h.choice([0, 0, 1, 1, 2, 5]) for _ in range(16)], "start": h.randrange(0, 40)}
    if seed % 60 == 11 and n <= 6:
        # 'stacked' transport through the real hid drivers (they report collisions
        # as framing errors, which commissioning needs; the serial gateways do not)
        plan["transport"] = ("tridonic", "hasseb")[(seed // 60) % 2]
    return plan


def run_plan(plan):
    res = new_result()
    units = []
    for i, u in enumerate(plan["units"]):
        g = busim.Gear(short=u["short"], randoms=list(u["stream"]), name="G%d" % i)
        g.no_store = u["fault"] == "no-store"
        g.no_verify = u["fault"] == "no-verify"
        g.init = {"enabled": busim.ENABLED, "withdrawn": busim.WITHDRAWN}.get(u.get("init0"), busim.DISABLED)
        units.append(g)
    # beyond its stream a unit keeps its final (unique) value
    for g in units:
        g._draw = (lambda g=g: _draw(g))
    bus = busim.Bus(units)
    log = EventLog()
    n = len(units)
    rounds = max([len(u["stream"]) for u in plan["units"]] + [1])
    cap = (rounds + 2) * (n + 1) * 260 + 64 + 50
    before = [g.short for g in units]
    readdress, dry = plan["readdress"], plan["dry_run"]
    avail = plan["available"]
    avail_obj = None if avail is None else list(avail)        # the caller's own list object
    form = plan.get("avail_form")
    form_used = None
    if avail is not None and form and not plan.get("second_run"):
        # "any iterable will do": a tuple, a set, a one-shot iterator, a generator, a filter object
        avail_obj = {"tuple": lambda: tuple(avail), "set": lambda: set(avail), "iter": lambda: iter(list(avail)),
                     "gen": lambda: (a for a in list(avail)), "filter": lambda: filter(lambda a: True, list(avail)),
                     "range": lambda: avail_obj}[form]()
        form_used = form
    # the options by keyword or by position, as documented: (available_addresses, readdress, dry_run)
    cf = plan.get("call_form", "kw")
    try:
        if cf == "pos":
            gen = Commissioning(avail_obj, readdress, dry)
        elif cf == "pos2":
            gen = Commissioning(avail_obj, readdress, dry_run=dry)
        elif cf == "minimal" and not dry:
            gen = Commissioning(avail_obj, readdress) if readdress else (
                Commissioning(avail_obj) if avail_obj is not None else Commissioning())
        else:
            gen = Commissioning(available_addresses=avail_obj, readdress=readdress, dry_run=dry)
    except TypeError as e_call:
        def _refused(e=e_call):         # the documented way of calling is refused: the run "raises" at once
            raise e
            yield
        gen = _refused()
    probes_cf = cf
    transport = plan.get("transport")
    if transport:
        sr, rr_ = drvsim.run_stacked(transport, plan["seed"], units, lambda: gen)
        log = rr_.world.log
        bus.t_us = int(rr_.vtime * 1e6)
        frames = [v_ for b_, v_ in sr.frames]
    else:
        comp = None
        env = None
        if plan.get("companion"):
            cp = plan["companion"]
            cunits = [busim.Gear(short=None, randoms=list(st), name="K%d" % i) for i, st in enumerate(cp["units"])]
            for g in cunits:
                g._draw = (lambda g=g: _draw(g))
            comp = busim.Stepper(Commissioning(available_addresses=list(range(20, 40))), busim.Bus(cunits), cap=6000)

            def env(i, cmd, b):
                if i >= cp["start"]:
                    comp.step(cp["pace"][i % len(cp["pace"])])
        sr = busim.run_sequence(gen, bus, cap=cap, log=log, env=env)
        frames = [c[1].frame.as_integer for c in sr.commands]
        if comp is not None:
            comp.finish()
    vs = []
    probes = {}
    if form_used:
        probes["permitted-set-as-" + form_used] = 1
    if probes_cf != "kw":
        probes["options-by-position"] = 1

    def V(clause, detail, site=None):
        vs.append(Violation(PROP, clause, detail, driver="commissioning", site=site))

    faulty = [i for i, u in enumerate(plan["units"]) if u["fault"]]
    participants = list(range(n)) if readdress else [i for i in range(n) if before[i] is None]
    nonpart = [i for i in range(n) if i not in participants]
    permitted = list(range(64)) if avail is None else list(avail)
    in_use = {before[i] for i in nonpart if before[i] is not None} if not readdress else set()
    free = [a for a in permitted if a not in in_use]
    mode = ("readdress" if readdress else "new-only") + ("/dry-run" if dry else "")
    nclash = sum(1 for f_ in frames if (f_ >> 8) == 0xA7) // (2 if transport == "hasseb" else 1) - 1
    if sr.status == "cap":
        V("does-not-terminate", "still running after %d commands (%d units, %d stream rounds)" % (cap, n, rounds), site=mode)
    elif sr.status == "raise":
        if not isinstance(sr.exc, ProgramShortAddressFailure):
            V("unexpected-exception", "%r" % (sr.exc,), site=type(sr.exc).__name__)
        elif not faulty or dry:
            V("ProgramShortAddressFailure-without-faulty-unit", "raised for address %s although every unit stores and verifies" % (
                getattr(sr.exc, "address", None)), site=mode)
    else:
        after = [g.short for g in units]
        if frames and (frames[-1] >> 8) != 0xA1:
            V("no-final-terminate", "last command is %#06x" % frames[-1], site=mode)
        stuck = [g.name for g in units if g.init != busim.DISABLED]
        if stuck:
            V("units-left-in-initialisation", "%s still %s" % (stuck[:4], units[int(stuck[0][1:])].init), site=mode)
        if dry:
            probes["dry-run"] = 1
            if after != before:
                V("dry-run-changed-addresses", "before %s after %s" % (before, after), site=mode)
        else:
            for i in nonpart:
                if after[i] != before[i]:
                    V("non-participant-changed", "unit G%d had address %s, now %s" % (i, before[i], after[i]), site=mode)
                    break
            got = [after[i] for i in participants if after[i] is not None]
            silent_fault = [i for i in faulty if i in participants]
            if silent_fault and len(free) > 0:
                # a unit that does not store/verify must have been noticed
                found_faulty = any(after[i] is None or plan["units"][i]["fault"] == "no-verify" for i in silent_fault)
                if found_faulty and len(participants) <= len(free):
                    V("unconfirmed-address-not-reported", "unit(s) %s do not store/verify but the sequence returned normally" % (
                        silent_fault,), site=plan["units"][silent_fault[0]]["fault"])
            else:
                bad = [a for a in got if a not in permitted]
                if bad:
                    V("address-outside-permitted-set", "handed out %s, permitted %s" % (bad, sorted(permitted)[:12]), site=mode)
                if len(set(got)) != len(got):
                    dup = sorted({a for a in got if got.count(a) > 1})
                    V("duplicate-addresses-handed-out", "participants ended with %s: address(es) %s given twice "
                      "(%d restart(s) after a clash; streams %s)" % (
                          [after[i] for i in participants], dup, max(nclash, 0),
                          [u["stream"] for u in plan["units"]][:6]), site=mode)
                clash_used = [a for a in got if a in in_use]
                if clash_used:
                    V("address-in-use-handed-out", "address(es) %s were already in use by non-participants" % clash_used, site=mode)
                want = min(len(participants), len(free))
                if len(got) != want and len(set(got)) == len(got):
                    V("wrong-number-of-units-addressed", "%d participants, %d free permitted addresses: %d units "
                      "addressed, expected %d (after %s)" % (len(participants), len(free), len(got), want,
                                                             [after[i] for i in participants][:12]), site=mode)
    if plan.get("second_run") and sr.status == "return" and not dry and not faulty and not transport and not vs:
        # same arguments object again, re-addressing everything: what the caller
        # passed as permitted set is still what the caller means
        probes["second-run-same-arguments"] = 1
        sr2 = busim.run_sequence(Commissioning(available_addresses=avail_obj, readdress=True), bus, cap=cap, log=log)
        after2 = [g.short for g in units]
        got2 = [a for a in after2 if a is not None]
        if sr2.status != "return":
            V("second-run-failed", "%s %r" % (sr2.status, sr2.exc), site=mode)
        elif [a for a in got2 if a not in permitted] or len(set(got2)) != len(got2) \
                or len(got2) != min(n, len(permitted)):
            V("second-run-wrong-addresses", "second run with the same arguments object (permitted %s) left the units "
              "with %s; expected %d distinct permitted addresses" % (
                  sorted(permitted)[:12], after2[:12], min(n, len(permitted))), site=mode)
    if plan.get("companion") and not transport:
        probes["second-line-commissioned-concurrently"] = 1
        got_c = [g.short for g in cunits]
        if comp.status != "return" or None in got_c or len(set(got_c)) != len(got_c) or \
                any(a not in range(20, 40) for a in got_c):
            V("concurrent-run-on-another-line-wrong", "the other line's run (%d unaddressed units, addresses 20..39 permitted) "
              "ended %s %r with %s" % (len(cunits), comp.status, comp.exc, got_c), site=mode)
    if any(u.get("init0") not in (None, "disabled") for u in plan["units"]):
        probes["units-found-in-initialisation-state"] = 1
    if transport:
        probes["stacked-" + transport] = 1
    if nclash >= 1:
        probes["clash-restart"] = 1
    if nclash >= 2:
        probes["two-clash-rounds"] = 1
    if len(participants) > len(free):
        probes["addresses-exhausted"] = 1
    if any(0xFFFFFF in u["stream"] for u in plan["units"]):
        probes["address-0xffffff"] = 1
    if any(0 in u["stream"] for u in plan["units"]):
        probes["address-0"] = 1
    sh = [b for b in before if b is not None]
    if len(set(sh)) != len(sh):
        probes["preexisting-duplicates"] = 1
    for i in faulty:
        probes["unit-does-not-store" if plan["units"][i]["fault"] == "no-store" else "unit-does-not-verify"] = 1
    if readdress:
        probes["readdress"] = 1
    if n > 64:
        probes["more-than-64-units"] = 1
    if n == 0:
        probes["empty-bus"] = 1
    if avail is not None and any(a in in_use for a in avail):
        probes["in-use-address-in-permitted-set"] = 1
    if nclash >= 1 and any(g.init_history_redraw for g in units):
        probes["redraw-equals-withdrawn-unit"] = 1
    for x in vs:
        add_violation(res, x)
    res["digest"] = log.digest()
    res["shape"] = log.shape() if transport else log.digest()[:16]
    res["events"] = len(log)
    res["vtime_s"] = bus.t_us * 1e-6
    res["nontrivial"] = len(participants) >= 2 and (nclash >= 1 or len(participants) > len(free) or bool(faulty)
                                                    or bool(in_use))
    res["probes"] = probes
    res["faults"] = {"unit-" + plan["units"][i]["fault"]: 1 for i in faulty}
    if nclash >= 1:
        res["faults"]["random-address-clash"] = nclash
    if res["violations"]:
        res["plan"] = plan
    res["sample"] = {"seed": plan["seed"], "transport": transport or "direct", "units": [(u["short"], [hex(x) for x in u["stream"]], u["fault"]) for u in plan["units"][:8]],
                     "n_units": n, "available": avail, "readdress": readdress, "dry_run": dry, "status": sr.status,
                     "commands": sr.steps, "clash_restarts": max(nclash, 0),
                     "after": [g.short for g in units][:12]}
    return res


def _draw(g):
    """Random address generator of a unit: the plan's stream, then the last
    (unique) value for ever.  Also notes when a withdrawn unit re-randomises."""
    if g.init == busim.WITHDRAWN:
        g.init_history_redraw = True
    v = g.randoms[min(g.nrandom, len(g.randoms) - 1)] if g.randoms else 0x123456
    g.nrandom += 1
    return v & 0xFFFFFF


busim.Gear.init_history_redraw = False


def run_seed(seed, tier):
    return [run_plan(gen_plan(seed, tier))]


def shrink(plan):
    if plan.get("companion"):
        p = copy.deepcopy(plan)
        del p["companion"]
        yield p
    if plan.get("second_run"):
        p = copy.deepcopy(plan)
        del p["second_run"]
        yield p
    if any(u.get("init0") for u in plan["units"]):
        p = copy.deepcopy(plan)
        for u in p["units"]:
            u.pop("init0", None)
        yield p
    if plan.get("transport"):
        p = copy.deepcopy(plan)
        del p["transport"]
        yield p
    n = len(plan["units"])
    if n > 6:
        for lo, hi in ((0, n // 2), (n // 2, n)):
            p = copy.deepcopy(plan)
            p["units"] = p["units"][lo:hi]
            yield p
    for i in range(n):
        p = copy.deepcopy(plan)
        del p["units"][i]
        yield p
    for i, u in enumerate(plan["units"]):
        if len(u["stream"]) > 1:
            for k in range(len(u["stream"]) - 1):
                p = copy.deepcopy(plan)
                del p["units"][i]["stream"][k]
                yield p
        if u["short"] is not None:
            p = copy.deepcopy(plan)
            p["units"][i]["short"] = None
            yield p
        if u["fault"]:
            p = copy.deepcopy(plan)
            p["units"][i]["fault"] = None
            yield p
    if plan["available"] is not None:
        p = copy.deepcopy(plan)
        p["available"] = None
        yield p
    for k in ("readdress", "dry_run"):
        if plan[k]:
            p = copy.deepcopy(plan)
            p[k] = False
            yield p
    for i, u in enumerate(plan["units"]):
        for k, x in enumerate(u["stream"]):
            if x > 0x10:
                p = copy.deepcopy(plan)
                p["units"][i]["stream"][k] = k + 1 + 4 * i
                yield p
