"""C10 - memory writes store exactly the data or fail loudly; never silently.
Engine busim, fault enumeration: every scenario is run fault-free, then once
per (fault kind, step of the command stream)."""
import copy

from dali.exceptions import (MemoryLocationNotWriteable, MemoryValueNotWriteable, MemoryWriteError,
                             MemoryWriteFailure, ResponseError)
from dali.memory import location

from sim import busim, memsim, plans
from sim.core import EventLog, Violation
from sim.runner import add_violation, new_result

PROP = "C10"
LEVEL = "fault_enumeration"
TIERS = {
    "quick": {"seeds": 16200, "chunk": 90, "wall_s": 300, "shrink_s": 30},
    "thorough": {"seeds": 486000, "chunk": 450, "wall_s": 3000, "shrink_s": 120},
}
RULE = ("one seed -> one base scenario: writable value = seed mod 27 (all 27 writable values, the 70 read-only ones every "
        "9th seed), seeded raw data (random, short strings, MASK/TMASK-like patterns), lock byte initially locked / unlocked "
        "/ odd, gear or device addressing, ignore_feedback / force_unlock options, bystander unit; the base runs fault-free, "
        "then once per (fault kind, command index): unit answers NO, echoes another byte, framing error on the echo (with garbage bits, or with exactly the written byte), answer "
        "lost on the bus, DTR0 not advancing at all / after one write, unit stays locked, non-standard unlock value, bank shorter than the value, "
        "an unrelated frame of another master before each command (resets write enable). Non-trivial iff a fault fired or "
        ">= 4 commands were exchanged; distinct = distinct (command, outcome) sequence.")
ASSUMPTIONS = [
    "memory model per DESIGN.md appendix A.2 (IEC 62386-102 9.10): write enable is reset by any frame other than DTR0/1/2, WRITE MEMORY LOCATION (- NO REPLY), QUERY CONTENT DTR0/1/2; lockable cells need lock byte == 0x55; DTR0 increments after every access below 0xFF; cell types taken from the library's declaration",
    "after an unrelated frame of another master only 'stored exactly or raised' is demanded, not the re-lock (the sequence cannot observe a lost NO-REPLY write)",
]
COMPONENTS = {"real": ["dali.memory.location.MemoryValue.write / write_raw, value_to_raw", "dali.memory.{oem,energy,diagnostics,maintenance,info} declarations",
                       "dali.gear.general / dali.device.general memory commands"],
              "stub": ["bus, control gear / control device memory (sim/busim.py)", "driver"]}
PROBES = ["fault-answer-no", "fault-echo-other", "fault-garble", "fault-garble-same-bits", "fault-drop", "fault-dtr0-frozen", "fault-dtr0-stuck-once", "fault-dtr0-ran-ahead", "fault-stays-locked",
          "fault-odd-unlock-value", "fault-short-bank", "fault-foreign-frame", "readonly-refused", "device-addressing",
          "ignore-feedback", "short-string-write", "initially-unlocked", "value-level-write-int", "value-level-write-mask",
          "value-level-write-tmask", "value-level-write-str", "value-level-write-out-of-range", "raw-data-longer-than-the-value",
          "earlier-calls-in-same-process", "value-level-write-without-conversion", "bank-latch", "bank-unlatch",
          "value-level-write-of-non-ascii-text", "value-level-write-str-bad", "options-by-position"]
DOCUMENTED = (MemoryLocationNotWriteable, MemoryWriteFailure, MemoryWriteError, ResponseError)


def gen_base(seed, tier="quick"):
    r = plans.rng_for(seed, PROP)
    ro = (seed % 9 == 4)
    if ro:
        key, v = memsim.READONLY_VALUES[(seed // 9) % len(memsim.READONLY_VALUES)]
    else:
        # (the non-read-only seeds are numbered consecutively: seed % 27 would never reach the values whose
        # index is 4 mod 9, the residue reserved for the read-only plans)
        k_ = seed // 9 * 8 + (seed % 9 if seed % 9 < 4 else seed % 9 - 1)
        key, v = memsim.WRITABLE_VALUES[k_ % len(memsim.WRITABLE_VALUES)]
    n = len(v.locations)
    is_str = issubclass(v, location.StringValue)
    ln = n
    if is_str and r.random() < 0.5:
        ln = r.randrange(0, n + 1)
    style = r.choice(["random", "random", "ff", "fe", "zero", "ascii"])
    if style == "random":
        raw = [r.randrange(256) for _ in range(ln)]
    elif style == "ff":
        raw = [0xFF] * ln
    elif style == "fe":
        raw = [0xFF] * (ln - 1) + [0xFE] if ln else []
    elif style == "zero":
        raw = [0] * ln
    else:
        raw = [r.randrange(0x20, 0x7F) for _ in range(ln)]
    via = None
    if not ro and v.name != "LockByte" and r.random() < 0.3:
        # value-level write(): the library converts the value itself
        nbits = 8 * n
        plain = issubclass(v, location.NumericValue) and not issubclass(
            v, (location.FixedScaleNumericValue, location.TemperatureValue))
        opts = []
        if issubclass(v, location.NumericValue):
            if v.mask_supported:
                opts.append(["MASK"])
            if v.tmask_supported:
                opts.append(["TMASK"])
            if plain:
                lo, hi = (-(1 << (nbits - 1)), (1 << (nbits - 1)) - 1) if v.signed else (0, (1 << nbits) - 1)
                opts += [["int", r.choice([lo, hi, hi - 1, r.randrange(lo, hi + 1), r.randrange(lo, hi + 1)])]] * 2
                # a number that does not fit the value's locations cannot be written: it has to be refused
                opts += [["int-bad", r.choice([hi + 1, lo - 1, hi + 1 + r.getrandbits(12), (hi + 1) * 256 + 5, -1 if lo == 0 else lo - 300])]]
        elif not issubclass(v, (location.NumericValue, location.StringValue)):
            # a value type without a conversion of its own (LightDistributionType): the library documents none,
            # so a value-level write cannot be carried out - it has to be refused, whatever is passed
            opts.append(["noconv", r.choice([1, True, 0, 5, 255])])
        if is_str:
            sl = r.choice([0, 1, n - 1, n, r.randrange(0, n + 1)])
            opts.append(["str", "".join(chr(r.randrange(0x20, 0x7F)) for _ in range(sl))])
            # the values are documented as ASCII strings: text that has no ASCII form cannot be written
            sb = [chr(r.randrange(0x20, 0x7F)) for _ in range(r.randrange(0, max(1, n - 3)))]
            sb.insert(r.randrange(len(sb) + 1), r.choice(["\u00fc", "\u00e9", "\u20ac", "\u0080", "\u00ff", "\u0100"]))
            opts.append(["str-bad", "".join(sb)])
        if opts:
            via = r.choice(opts)
            raw = list(expected_raw(v, via)) if via[0] not in ("int-bad", "noconv", "str-bad") else []
    elif not ro and v.name != "LockByte" and r.random() < 0.06:
        # more data than the value has locations - with and without allow_short_write: refused before anything is sent
        via = ["raw-too-long", [r.randrange(256) for _ in range(n + r.choice([1, 1, 2, 7]))], r.random() < 0.6]
    h = plans.rng_for(seed, PROP + "-history")
    if h.random() < 0.04:
        # the bank-level write helpers: latch() / unlatch() write the lock byte of *that* bank, whatever the
        # unit's DTR1 points at beforehand
        return {"engine": "busim", "property": PROP, "seed": seed, "bank_op": h.choice(["latch", "unlatch"]),
                "bank": h.choice(["202", "203", "204", "205", "206"]), "value": "LockByte", "raw": [], "via": None,
                "prelude": None, "short_write": False, "lock": h.choice([0xFF, 0xAA, 0x55, 0x00]),
                "kind": h.choice(["gear", "gear", "device"]), "short": h.randrange(64), "ignore_feedback": False,
                "force_unlock": False, "pattern": "random", "fault": None, "readonly": True,
                "dtr1": h.choice([0, 1, 207, 202, 205, h.randrange(256)])}
    prelude = None
    if h.random() < 0.2:
        strs = [(k_, vv.name) for k_, vv in memsim.WRITABLE_VALUES if issubclass(vv, location.StringValue)]
        nums = [(k_, vv.name) for k_, vv in memsim.WRITABLE_VALUES if issubclass(vv, location.NumericValue) and vv.name != "LockByte"
                and not issubclass(vv, (location.FixedScaleNumericValue, location.TemperatureValue))]
        prelude = []
        for _ in range(h.randrange(1, 3)):
            pkw = h.choice([{"ignore_feedback": True}, {"force_unlock": True}, {"ignore_feedback": True, "force_unlock": True}, {}])
            if h.random() < 0.6:
                prelude.append([list(h.choice(strs)), "".join(chr(h.randrange(0x41, 0x5B)) for _ in range(h.randrange(0, 6))), pkw])
            else:
                prelude.append([list(h.choice(nums)), h.randrange(0, 100), pkw])
    return {"engine": "busim", "property": PROP, "seed": seed, "bank": key, "value": v.name, "raw": raw, "via": via, "prelude": prelude,
            "short_write": ln != n, "lock": r.choice([0xFF, 0xFF, 0x55, 0x12, 0x00]),
            "kind": r.choice(["gear", "gear", "device"]), "short": r.randrange(64),
            "ignore_feedback": r.random() < 0.12,
            "force_unlock": r.random() < 0.1 and v.name != "LockByte",
            "pattern": r.choice(["random", "random", "ff", "mixed"]), "fault": None, "readonly": ro}


def expected_raw(v, via):
    """What a value-level write has to store (IEC 62386 / DiiA parts 251-253:
    numbers MSB first, MASK all ones, TMASK all ones but the least significant
    bit - positive maximum for signed values; strings NUL-terminated when short)."""
    n = len(v.locations)
    if via[0] == "int":
        return via[1].to_bytes(n, "big", signed=bool(v.signed))
    if via[0] in ("MASK", "TMASK"):
        top = (1 << (8 * n - 1)) - 1 if v.signed else (1 << (8 * n)) - 1
        return (top - (1 if via[0] == "TMASK" else 0)).to_bytes(n, "big")
    b = via[1].encode("ascii")
    return b + (b"\x00" if len(b) < n else b"")


FAULT_KINDS = ["no", "other", "garble", "garble-same", "drop", "freeze", "freeze-at", "skip-at", "stays-locked", "odd-unlock", "short-bank", "foreign"]


def _find_value(key, name):
    for v in memsim.BANKS[key].values:
        if v.name == name:
            return v
    lib = memsim.BANKS[key]
    for cand in (lib.LastAddress, lib.LockByte):
        if cand is not None and cand.name == name:
            return cand
    raise KeyError(name)


def _run_bank_op(plan):
    res = new_result()
    r = plans.rng_for(plan["seed"], PROP + "-image")
    key = plan["bank"]
    lib = memsim.BANKS[key]
    bank = memsim.make_model(key, r, lock=plan["lock"], pattern="random")
    others = [memsim.make_model(k_, r) for k_ in ("1", "207", "205" if key != "205" else "206")]
    unit = memsim.make_unit(plan["kind"], plan["short"], [bank] + others)
    unit.dtr1 = plan["dtr1"]
    bus = busim.Bus([unit])
    log = EventLog()
    before = {b.number: list(b.cells) for b in [bank] + others}
    addr = memsim.addr_obj(plan["kind"], plan["short"])
    op = plan["bank_op"]
    try:
        sr = busim.run_sequence((lib.latch if op == "latch" else lib.unlatch)(addr), bus, cap=60, log=log)
    except Exception as e:                      # noqa: BLE001
        sr = busim.SeqRun()
        sr.status, sr.exc = "raise", e
    want = 0xAA if op == "latch" else 0xFF
    vs = []
    if sr.status != "return":
        vs.append(Violation(PROP, "bank-helper-failed", "BANK_%s.%s(): %s %r" % (key, op, sr.status, sr.exc),
                            driver="bank_op", site=op))
    else:
        if bank.cells[2] != want:
            vs.append(Violation(PROP, "silent-write-failure", "BANK_%s.%s() returned normally (unit's DTR1 was %d beforehand): "
                                "the bank's lock byte is %#x, not %#x" % (key, op, plan["dtr1"], bank.cells[2], want),
                                driver="bank_op", site=op))
        for b in [bank] + others:
            ch = [a for a in range(256) if b.cells[a] != before[b.number][a] and not (b is bank and a == 2)]
            if ch:
                vs.append(Violation(PROP, "other-location-changed", "BANK_%s.%s(): bank %d location(s) %s changed" % (
                    key, op, b.number, [hex(a) for a in ch[:4]]), driver="bank_op", site=op))
                break
    for x in vs:
        add_violation(res, x)
    res["digest"] = log.digest()
    res["shape"] = log.digest()[:16] + "|" + op
    res["events"] = len(log)
    res["vtime_s"] = bus.t_us * 1e-6
    res["nontrivial"] = plan["dtr1"] != bank.number
    res["probes"] = {"bank-" + op: 1}
    res["faults"] = {}
    res["_steps"], res["_nwrites"] = 0, 0
    if res["violations"]:
        res["plan"] = plan
    res["sample"] = None
    return res


def run_plan(plan):
    if plan.get("bank_op"):
        return _run_bank_op(plan)
    res = new_result()
    r = plans.rng_for(plan["seed"], PROP + "-image")
    key = plan["bank"]
    v = _find_value(key, plan["value"])
    lib = memsim.BANKS[key]
    fault = plan["fault"]
    fk, fi = (fault[0], fault[1]) if fault else (None, None)
    last = None
    if fk == "short-bank":
        locs = sorted(l.address for l in v.locations)
        last = max(2, locs[min(fi, len(locs) - 1)] - 1)
    bank = memsim.make_model(key, r, last=last, lock=plan["lock"], pattern=plan["pattern"],
                             unlock_value=0x77 if fk == "odd-unlock" else 0x55)
    other_bank = memsim.make_model("1" if key != "1" else "207", r)
    unit = memsim.make_unit(plan["kind"], plan["short"], [bank, other_bank])
    by_bank = memsim.make_model(key, r)
    bystander = memsim.make_unit(plan["kind"], (plan["short"] + 7) % 64, [by_bank])
    if fk == "freeze":
        unit.freeze_dtr0 = True
    if fk == "freeze-at":
        unit.freeze_after.add(fi)
    if fk == "skip-at":
        # DTR0 runs ahead by one after this data write (a glitch, another controller's frame): every later
        # byte lands one location further on - the echo cannot show it, only the DTR0 check at the end
        unit.skip_after.add(fi)
    if fk == "stays-locked":
        bank.ignore_unlock = True
    if fk in ("no", "other", "garble", "garble-same"):
        unit.answer_faults[fi] = fk
    bus = busim.Bus([unit, bystander])
    log = EventLog()
    before = {b.number: list(b.cells) for b in (bank, other_bank)}
    by_before = list(by_bank.cells)
    raw = bytes(plan["raw"])
    addr = memsim.addr_obj(plan["kind"], plan["short"])
    answer_faults = {fi: "drop"} if fk == "drop" else {}
    foreign_fired = []

    def env(i, cmd, b):
        if fk == "foreign" and i == fi:
            # another master talks to somebody else
            b.transmit(16, 0x0380 | 0x0100 if plan["kind"] == "gear" else 0x05FE)
            if plan["kind"] == "device":
                b.transmit(24, 0x05FE30)
            foreign_fired.append(i)

    kw = {"allow_short_write": plan["short_write"], "force_unlock": plan["force_unlock"],
          "ignore_feedback": plan["ignore_feedback"]}
    vs = []
    probes = {}

    def V(clause, detail, site=None):
        vs.append(Violation(PROP, clause, detail, driver="write_raw", site=site))

    try:
        via = plan.get("via")
        for pv, pval, pkw in plan.get("prelude") or []:
            # earlier writes in this process, with other options, to some other unit: they must leave nothing behind
            pcls = _find_value(*pv)
            pb = memsim.make_model(pv[0], plans.rng_for(plan["seed"], PROP + "-prelude"), lock=0xFF)
            pu = memsim.make_unit("gear", 9, [pb])
            try:
                busim.run_sequence(pcls.write(memsim.addr_obj("gear", 9), pval, **pkw), busim.Bus([pu]), cap=200, log=EventLog())
            except Exception:                   # noqa: BLE001
                pass
            probes["earlier-calls-in-same-process"] = 1
        if via and via[0] == "raw-too-long":
            gen = v.write_raw(addr, bytes(via[1]), allow_short_write=via[2], force_unlock=plan["force_unlock"],
                              ignore_feedback=plan["ignore_feedback"])
        elif via:
            kw.pop("allow_short_write")
            probes["value-level-write-" + via[0].lower()] = 1
            gen = v.write(addr, via[0] if via[0] in ("MASK", "TMASK") else via[1], **kw)
        elif plans.rng_for(plan["seed"], PROP + "-call").random() < 0.3:
            # the options by position, in the documented order (short write, force unlock, ignore feedback)
            probes["options-by-position"] = 1
            gen = v.write_raw(addr, raw, kw["allow_short_write"], kw["force_unlock"], kw["ignore_feedback"])
        else:
            gen = v.write_raw(addr, raw, **kw)
        sr = busim.run_sequence(gen, bus, answer_faults=answer_faults, cap=400, env=env, log=log)
    except Exception as e:                      # noqa: BLE001
        sr = busim.SeqRun()
        sr.status, sr.exc = "raise", e
    writable = memsim.is_writable(v)
    if plan.get("via") and plan["via"][0] == "raw-too-long":
        probes["raw-data-longer-than-the-value"] = 1
        if sr.status != "raise" or sr.steps:
            V("over-long-data-accepted", "%s.%s.write_raw(%d bytes for %d locations, allow_short_write=%s): %s after %d commands" % (
                key, v.name, len(plan["via"][1]), len(v.locations), plan["via"][2], sr.status, sr.steps),
              site="allow-short-write" if plan["via"][2] else "plain")
    if plan.get("via") and plan["via"][0] in ("int-bad", "raw-too-long", "noconv", "str-bad"):
        if plan["via"][0] in ("int-bad", "noconv", "str-bad"):
            probes[{"int-bad": "value-level-write-out-of-range", "noconv": "value-level-write-without-conversion",
                    "str-bad": "value-level-write-of-non-ascii-text"}[plan["via"][0]]] = 1
        if plan["via"][0] == "raw-too-long":
            pass
        elif sr.status != "raise":
            V("out-of-range-value-accepted", "%s.%s.write(%r): %s; the %d location(s) now hold %s" % (
                key, v.name, plan["via"][1], sr.status, len(v.locations),
                [bank.cells[l.address] for l in v.locations]), site={"int-bad": "accepted", "noconv": "no-conversion", "str-bad": "non-ascii"}[plan["via"][0]])
        elif sr.steps:
            V("out-of-range-value-accepted", "%s.%s.write(%r): refused only after %d commands" % (
                key, v.name, plan["via"][1], sr.steps), site="refused-late")
        if [a for a in range(256) if bank.cells[a] != before[bank.number][a]]:
            V("other-location-changed", "%s.%s: refused input %r changed the unit's memory" % (key, v.name, plan["via"][1]),
              site="out-of-range")
        for x in vs:
            add_violation(res, x)
        res["digest"] = log.digest()
        res["shape"] = log.digest()[:16] + "|bad-value"
        res["events"] = len(log)
        res["vtime_s"] = bus.t_us * 1e-6
        res["nontrivial"] = False
        res["probes"] = dict(probes)
        res["faults"] = {}
        res["_steps"], res["_nwrites"] = 0, 0
        if res["violations"]:
            res["plan"] = plan
        res["sample"] = None
        return res
    locs = [l.address for l in v.locations][:len(raw)]
    want = dict(zip(locs, raw))
    fired = bool(foreign_fired) or (fk in ("freeze", "stays-locked", "odd-unlock", "short-bank")) or \
        any(c[4] for c in sr.commands) or (fk in ("no", "other", "garble", "garble-same", "freeze-at", "skip-at") and unit.mem_writes > fi)
    if not writable:
        probes["readonly-refused"] = 1
        if not (sr.status == "raise" and isinstance(sr.exc, MemoryValueNotWriteable)):
            V("readonly-value-not-refused", "%s.%s: %s %r" % (key, v.name, sr.status, sr.exc))
        elif sr.steps:
            V("readonly-value-refused-late", "%s.%s: %d commands sent first" % (key, v.name, sr.steps))
    elif sr.status == "cap":
        V("sequence-does-not-terminate", "write_raw still running after 400 commands")
    elif sr.status == "raise":
        if not isinstance(sr.exc, DOCUMENTED):
            V("undocumented-exception", "%s.%s fault %s: %r" % (key, v.name, fault, sr.exc), site=type(sr.exc).__name__)
        elif not fired and not _expected_failure(plan, v, bank, lib):
            V("write-failed-without-fault", "%s.%s (lock %#x, raw %s): %r, commands %s" % (
                key, v.name, plan["lock"], list(raw), sr.exc, [(str(c[1]), c[3]) for c in sr.commands][-4:]),
              site=type(sr.exc).__name__)
    else:
        # returned normally although the unit visibly misbehaved on a data write
        # whose feedback the caller had not asked to ignore
        if fk in ("no", "other", "garble", "garble-same", "freeze", "freeze-at") and not plan["ignore_feedback"] \
                and (unit.mem_writes > fi if fk != "freeze" else unit.mem_writes > 0):
            V("unit-misbehaviour-not-reported", "%s.%s fault %s (data write #%d of %d): write returned normally" % (
                key, v.name, fk, fi, unit.mem_writes), site=fk)
        # returned normally: the data must be there, nothing else touched
        bad = {a: (bank.cells[a], b_) for a, b_ in want.items() if bank.cells[a] != b_}
        if bad and not plan["ignore_feedback"]:
            V("silent-write-failure", "%s.%s fault %s: returned normally but cells %s (have, want)" % (
                key, v.name, fault, {hex(a): x for a, x in list(bad.items())[:4]}),
              site=fk or "fault-free")
        elif bad and not fired:
            V("silent-write-failure", "%s.%s: ignore_feedback write on a healthy unit did not store %s" % (
                key, v.name, {hex(a): x for a, x in list(bad.items())[:4]}), site="ignore-feedback")
        others = [a for a in range(256) if a not in want and a != 2 and bank.cells[a] != before[bank.number][a]]
        if others and not (fk == "skip-at" and plan["ignore_feedback"]):
            # (a unit whose DTR0 runs ahead puts bytes elsewhere; a caller who asked to ignore feedback is not told)
            V("other-location-changed", "%s.%s fault %s: cells %s changed although not part of the value" % (
                key, v.name, fault, [hex(a) for a in others[:6]]), site=fk or "fault-free")
        if other_bank.cells != before[other_bank.number]:
            V("other-bank-changed", "another bank of the unit was modified")
        lockable = bank.has_lock and any(bank.cell_type(l_.address) in busim.LOCKABLE for l_ in v.locations)
        if not (lockable or plan["force_unlock"]) and 2 not in want and not foreign_fired \
                and bank.cells[2] != before[bank.number][2]:
            # a value that no lock protects: its write has no business with the bank's lock / latch byte
            V("other-location-changed", "%s.%s fault %s: lock byte changed from %#x to %#x by the write of a value that is "
              "not lockable" % (key, v.name, fault, before[bank.number][2], bank.cells[2]), site="lock-byte")
        if (lockable or plan["force_unlock"]) and bank.number != 0 and not foreign_fired and 2 not in want:
            if bank.cells[2] == 0x55:
                V("bank-left-unlocked", "%s.%s fault %s: lock byte still 0x55 after a write that returned normally" % (
                    key, v.name, fault), site=fk or "fault-free")
    if by_bank.cells != by_before:
        V("bystander-changed", "another unit's memory was modified")
    if fk:
        probes["fault-" + {"no": "answer-no", "other": "echo-other", "garble-same": "garble-same-bits", "freeze": "dtr0-frozen", "freeze-at": "dtr0-stuck-once", "skip-at": "dtr0-ran-ahead",
                           "odd-unlock": "odd-unlock-value", "foreign": "foreign-frame"}.get(fk, fk)] = 1 if fired else 0
    if plan["kind"] == "device":
        probes["device-addressing"] = 1
    if plan["ignore_feedback"]:
        probes["ignore-feedback"] = 1
    if plan["short_write"]:
        probes["short-string-write"] = 1
    if plan["lock"] == 0x55:
        probes["initially-unlocked"] = 1
    for x in vs:
        add_violation(res, x)
    res["digest"] = log.digest()
    res["shape"] = log.digest()[:16] + "|" + str(fk)
    res["events"] = len(log)
    res["vtime_s"] = bus.t_us * 1e-6
    res["nontrivial"] = fired or sr.steps >= 4
    res["probes"] = {k: n for k, n in probes.items() if n}
    res["faults"] = {fk: 1} if (fk and fired) else {}
    res["_steps"] = sr.steps
    res["_nwrites"] = unit.mem_writes
    if res["violations"]:
        res["plan"] = plan
    res["sample"] = {"seed": plan["seed"], "value": "%s.%s" % (key, v.name), "raw": list(raw), "fault": fault,
                     "lock": plan["lock"], "status": sr.status, "exc": repr(sr.exc) if sr.exc else None,
                     "commands": [(str(c[1]), c[3]) for c in sr.commands[:10]]}
    return res


def _expected_failure(plan, v, bank, lib):
    """Fault-free scenarios in which a write must fail anyway."""
    return False


def run_seed(seed, tier):
    base = gen_base(seed, tier)
    b = run_plan(base)
    out = [b]
    if b["violations"] or base["readonly"]:
        return _strip(out)
    steps, nw = b["_steps"], b["_nwrites"]
    r = plans.rng_for(seed, PROP + "-variants")
    for fk in FAULT_KINDS:
        if fk in ("no", "other", "garble", "garble-same", "freeze-at", "skip-at"):
            idxs = range(nw)
        elif fk in ("drop", "foreign"):
            idxs = range(steps + (1 if fk == "foreign" else 0))
        elif fk == "short-bank":
            idxs = range(min(len(base["raw"]), 3) or 1)
        else:
            idxs = [0]
        idxs = list(idxs)
        if tier == "quick" and len(idxs) > 12:
            idxs = sorted(r.sample(idxs, 12))
        for i in idxs:
            p = copy.deepcopy(base)
            p["fault"] = [fk, i]
            out.append(run_plan(p))
    return _strip(out)


def _strip(results):
    for r_ in results:
        for k in [k for k in r_ if k.startswith("_")]:
            del r_[k]
    return results


def shrink(plan):
    if plan["fault"]:
        p = copy.deepcopy(plan)
        p["fault"] = None
        yield p
        if plan["fault"][1] > 0:
            p = copy.deepcopy(plan)
            p["fault"][1] -= 1
            yield p
    for k, simple in (("ignore_feedback", False), ("force_unlock", False), ("lock", 0xFF), ("pattern", "ff"),
                      ("kind", "gear")):
        if plan[k] != simple:
            p = copy.deepcopy(plan)
            p[k] = simple
            yield p
    if plan.get("via"):
        p = copy.deepcopy(plan)
        p["via"] = None
        yield p
    elif any(plan["raw"]):
        p = copy.deepcopy(plan)
        p["raw"] = [0] * len(plan["raw"])
        yield p
