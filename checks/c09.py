"""C09 - memory-bank reads return the declared bytes and leave the unit
untouched.  Engine busim, fault enumeration: each scenario runs fault-free,
then once per (silence | framing error, command index); an environment actor
rewrites live bytes between commands (counters tick while a bank is read)."""
import copy

from dali.exceptions import MemoryLocationNotImplemented, ResponseError

from sim import busim, memsim, plans
from sim.core import EventLog, Violation
from sim.runner import add_violation, new_result

PROP = "C09"
LEVEL = "fault_enumeration"
TIERS = {
    "quick": {"seeds": 18000, "chunk": 100, "wall_s": 300, "shrink_s": 30},
    "thorough": {"seeds": 540000, "chunk": 500, "wall_s": 3000, "shrink_s": 120},
}
RULE = ("one seed -> one base scenario: kind = read one value (all ~95 declared values of banks 0, 0-legacy, 1, 202-207, "
        "seed-indexed) | read_raw | read_all with latch | read_all without latch; seeded image (random / all-ones / "
        "MASK-TMASK-like / every value on one of its own boundaries), 'last accessible location' anywhere from 0 to 254 (biased to the declared end and to cuts "
        "through a value), holes at seeded positions, gear or device addressing, lock byte initially 0xFF / 0x55 / 0xAA, "
        "optional concurrent mutation of the image between commands; the base runs fault-free and then once per "
        "(drop | garble, command index) - all indices in both tiers for single values, strided in quick for read_all. "
        "Non-trivial iff a fault fired, a location was missing, or the image was mutated concurrently; distinct = distinct "
        "(command, outcome) sequence.")
ASSUMPTIONS = [
    "memory model per DESIGN.md appendix A.2; with the latch (lock byte 0xAA on a latching bank) reads come from the snapshot taken when 0xAA was written; write enable is reset by any frame other than the DTR / write / query-DTR family (the reading the repo's own fake gear uses as well)",
    "interpretation of raw bytes: class-level rules re-implemented in sim/memsim.ref_interpret (scale byte -6..6, MASK / TMASK patterns, range limits -> Invalid, number / temperature / version / boolean / string encodings, the two special values of bank 1); the per-value parameters (signedness, which flags exist, limits, fixed scale factor) are taken from the library's declaration - the static memory map itself is C11 and not judged",
    "a dropped answer is indistinguishable from an unimplemented location: MemoryLocationNotImplemented (single value) or omission of the values touching it (read_all) is then the expected outcome",
]
COMPONENTS = {"real": ["dali.memory.location.MemoryValue.read / read_raw / from_list, MemoryBank.read_all / LastAddress",
                       "dali.memory.* declarations", "gear / device memory commands"],
              "stub": ["bus, control gear / control device memory incl. latch (sim/busim.py)", "driver"]}
PROBES = ["location-beyond-last", "hole", "answer-dropped", "answer-garbled", "latched-read", "mutation-during-read",
          "mutation-hidden-by-latch", "device-addressing", "read-all", "initial-lock-byte-aa",
          "same-bank-read-on-another-line-concurrently"]


def gen_base(seed, tier="quick"):
    r = plans.rng_for(seed, PROP)
    kind = ("read", "read", "read_raw", "all-latch", "all-nolatch", "read")[seed % 6]
    nvals = len(memsim.ALL_VALUES)
    if kind in ("read", "read_raw"):
        key, v = memsim.ALL_VALUES[(seed // 6 * 3 + seed % 3) % nvals] if False else memsim.ALL_VALUES[(seed * 7 // 6) % nvals]
        vname = v.name
    else:
        key = memsim.BANK_KEYS[(seed // 6) % len(memsim.BANK_KEYS)]
        vname = None
    lib = memsim.BANKS[key]
    decl_max = max(l.address for vv in lib.values for l in vv.locations)
    if kind in ("read", "read_raw"):
        v = [vv for vv in lib.values if vv.name == vname][0]
        locs = sorted(l.address for l in v.locations)
        last = r.choice([decl_max, decl_max, 254, locs[-1], locs[-1] - 1, locs[0], locs[0] - 1,
                         r.choice(locs), r.randrange(0, 255)])
        holes = r.choice([[], [], [], [r.choice(locs)], [r.randrange(3, 255)], r.sample(range(3, decl_max + 2), 2)])
    else:
        last = r.choice([decl_max, decl_max, decl_max - 1, 254, r.randrange(2, decl_max + 3), r.randrange(0, 255),
                         40 if tier == "quick" else 200])
        holes = r.choice([[], [], r.sample(range(3, decl_max + 2), r.randrange(1, 4))])
    last = max(0, min(254, last))
    return {"engine": "busim", "property": PROP, "seed": seed, "kind": kind, "bank": key, "value": vname,
            "last": last, "holes": sorted(holes), "lock": r.choice([0xFF, 0xFF, 0x55, 0xAA, 0x33]),
            "unit": r.choice(["gear", "gear", "device"]), "short": r.randrange(64),
            "pattern": r.choice(["random", "random", "ff", "fe", "mixed", "edges", "edges"]),
            "mutate": r.random() < 0.35, "fault": None,
            # another line's unit has the same bank read at the same time (the bank objects are module-level
            # singletons shared by every unit and driver of the process)
            "companion": ({"latch": r.random() < 0.6, "start": r.randrange(0, 12),
                           "pace": [r.choice([0, 0, 1, 1, 2, 4]) for _ in range(8)]} if r.random() < 0.15 else None)}


def run_plan(plan):
    res = new_result()
    r = plans.rng_for(plan["seed"], PROP + "-image")
    key = plan["bank"]
    lib = memsim.BANKS[key]
    bank = memsim.make_model(key, r, last=plan["last"], holes=plan["holes"], lock=plan["lock"], pattern=plan["pattern"])
    if plan["lock"] == 0xAA and bank.has_latch:
        bank.snapshot = list(bank.cells)
    other = memsim.make_model("1" if key != "1" else "207", r)
    unit = memsim.make_unit(plan["unit"], plan["short"], [bank, other])
    bus = busim.Bus([unit])
    log = EventLog()
    addr = memsim.addr_obj(plan["unit"], plan["short"])
    fault = plan["fault"]
    faults = {fault[1]: fault[0]} if fault else {}
    shadow = list(bank.cells)           # what the memory holds, following the environment's mutations
    other_before = list(other.cells)
    mut = plans.rng_for(plan["seed"], PROP + "-mutate")
    history = {}                        # command index -> copy of the live image when that command was sent
    latch_image = [None]
    mutated = [0]

    def env(i, cmd, b):
        if plan["mutate"] and i > 0 and mut.random() < 0.5:
            a = mut.randrange(3, 255)
            if bank.cells[a] is not None:
                nv = (bank.cells[a] + 1 + mut.randrange(3)) & 0xFF
                bank.cells[a] = nv
                shadow[a] = nv
                mutated[0] += 1
        history[i] = list(bank.cells)
        f = cmd.frame.as_integer
        # the latch command: WRITE MEMORY LOCATION - NO REPLY with 0xAA
        if (len(cmd.frame) == 16 and f == 0xC9AA) or (len(cmd.frame) == 24 and f == 0xC121AA):
            latch_image[0] = list(bank.cells)

    vs = []
    probes = {}

    def V(clause, detail, site=None):
        vs.append(Violation(PROP, clause, detail, driver=plan["kind"], site=site))

    kind = plan["kind"]
    if kind in ("read", "read_raw"):
        v = [vv for vv in lib.values if vv.name == plan["value"]][0]
        gen = v.read(addr) if kind == "read" else v.read_raw(addr)
    else:
        v = None
        gen = lib.read_all(addr, use_latch=(kind == "all-latch"))
    comp = None
    if plan.get("companion"):
        cp = plan["companion"]
        cbank = memsim.make_model(key, plans.rng_for(plan["seed"], PROP + "-companion"), lock=0xFF)
        cunit = memsim.make_unit("gear", 9, [cbank])
        comp = busim.Stepper(lib.read_all(memsim.addr_obj("gear", 9), use_latch=cp["latch"]), busim.Bus([cunit]), cap=700)
        env0 = env

        def env(i, cmd, b):                      # noqa: F811
            if i >= cp["start"]:
                comp.step(cp["pace"][i % len(cp["pace"])])
            env0(i, cmd, b)
    sr = busim.run_sequence(gen, bus, answer_faults=faults, cap=700, env=env, log=log)
    if comp is not None:
        comp.finish()
    fired = {c[0]: c[4] for c in sr.commands if c[4]}
    # every READ MEMORY LOCATION the sequence issued, with DTR state of the model
    pre_latched = plan["lock"] == 0xAA and bank.has_latch

    def visible(a, at_cmd):
        """Byte a correct unit shows at location a when command at_cmd is sent."""
        if a > plan["last"]:
            return None
        src = history.get(at_cmd, shadow)
        if bank.has_latch and bank.number != 0 and a != 2:
            if latch_image[0] is not None and kind == "all-latch" and plan["last"] >= 2:
                src = latch_image[0]
            elif pre_latched and latch_image[0] is None:
                src = bank.snapshot
        return src[a]

    if sr.status == "cap":
        V("sequence-does-not-terminate", "%s still running after 700 commands" % kind)
    elif kind in ("read", "read_raw"):
        locs = [l.address for l in v.locations]
        # command indices of the reads: the sequence reads the locations in order
        read_idx = [c[0] for c in sr.commands if _is_read(c[1])]
        raw, missing, garbled = [], None, None
        for n, a in enumerate(locs):
            at = read_idx[n] if n < len(read_idx) else None
            if at is not None and fired.get(at) == "garble":
                garbled = a
                break
            b_ = visible(a, at) if at is not None else None
            if at is None or b_ is None or fired.get(at) == "drop":
                missing = a
                break
            raw.append(b_)
        if missing is not None:
            probes["hole" if (missing <= plan["last"]) else "location-beyond-last"] = 1
        if garbled is not None:
            if not (sr.status == "raise" and isinstance(sr.exc, ResponseError)):
                V("garbled-answer-not-reported", "%s.%s: framing error at location %#x, result %s %r" % (
                    key, v.name, garbled, sr.status, sr.exc if sr.exc else sr.value), site=kind)
        elif missing is not None:
            if not (sr.status == "raise" and isinstance(sr.exc, MemoryLocationNotImplemented)):
                V("missing-location-not-reported", "%s.%s: location %#x not readable (last %d, holes %s, fault %s) "
                  "but result %s %r" % (key, v.name, missing, plan["last"], plan["holes"], fault, sr.status,
                                        sr.exc if sr.exc else sr.value), site=kind)
        elif sr.status != "return":
            V("read-failed", "%s.%s readable (last %d) but %s %r; commands %s" % (
                key, v.name, plan["last"], sr.status, sr.exc, [(str(c[1]), c[3]) for c in sr.commands][-4:]),
              site=type(sr.exc).__name__ if sr.exc else sr.status)
        else:
            rawb = bytes(raw)
            exp = rawb if kind == "read_raw" else memsim.ref_interpret(v, rawb)
            if sr.value != exp:
                V("wrong-value", "%s.%s: unit shows %s -> %r, sequence returned %r" % (
                    key, v.name, list(rawb), exp, sr.value), site=kind)
    else:
        probes["read-all"] = 1
        use_latch = kind == "all-latch" and bank.has_latch
        if use_latch:
            probes["latched-read"] = 1
        read_cmds = [c for c in sr.commands if _is_read(c[1])]
        garb = [c for c in read_cmds if c[4] == "garble"]
        first_read_faulted = read_cmds and read_cmds[0][4] is not None
        if garb:
            if not (sr.status == "raise" and isinstance(sr.exc, ResponseError)):
                V("garbled-answer-not-reported", "read_all bank %s: framing error, result %s %r" % (
                    key, sr.status, sr.exc), site=kind)
        elif first_read_faulted or plan["last"] is None:
            pass        # the 'last accessible location' byte itself was lost: any documented failure is fine
        elif sr.status == "raise":
            if not isinstance(sr.exc, (MemoryLocationNotImplemented, ResponseError)):
                V("undocumented-exception", "read_all bank %s: %r" % (key, sr.exc), site=type(sr.exc).__name__)
            elif not fired:
                V("read-failed", "read_all bank %s (last %d): %r without any fault" % (key, plan["last"], sr.exc),
                  site=type(sr.exc).__name__)
        else:
            # which location did each read command address?  The first read is
            # location 0 (last address); the bulk reads are sequential from the start address
            start = 2 if lib.address == 0 else 3
            bulk = read_cmds[1:]
            seen = {}
            for n, c in enumerate(bulk):
                a = start + n
                b_ = visible(a, c[0])
                if c[4] == "drop":
                    b_ = None
                seen[a] = b_
            # locations the sequence never asked for are judged by what the
            # unit holds: stopping early does not make a value unimplemented
            for a in range(start + len(bulk), plan["last"] + 1):
                seen[a] = visible(a, None)
            exp = {}
            for vv in lib.values:
                locs = [l.address for l in vv.locations]
                bs = [seen.get(a) if a >= start else None for a in locs]
                if any(x is None for x in bs):
                    continue
                rawb = bytes(bs)
                exp[vv.name] = memsim.ref_interpret(vv, rawb)
            got = {vv.name: val for vv, val in sr.value.items()}
            if set(got) != set(exp):
                extra, lost = sorted(set(got) - set(exp)), sorted(set(exp) - set(got))
                V("wrong-set-of-values", "read_all bank %s (last %d, holes %s, fault %s): unexpected %s, missing %s" % (
                    key, plan["last"], plan["holes"], fault, extra[:4], lost[:4]), site=kind)
            else:
                for k_ in exp:
                    if got[k_] != exp[k_]:
                        V("wrong-value", "read_all bank %s: %s is %r in the %s, sequence reported %r" % (
                            key, k_, exp[k_], "latched snapshot" if use_latch else "memory at read time", got[k_]),
                          site=kind)
                        break
            if use_latch and mutated[0]:
                probes["mutation-hidden-by-latch"] = 1
            if use_latch and plan["last"] >= 2 and latch_image[0] is None:
                V("bank-not-latched-for-read-all", "read_all(use_latch=True) on latching bank %s never wrote 0xAA to the "
                  "lock byte: the values are not a snapshot" % key, site=kind)
    # ---- afterwards: memory untouched, not left latched -----------------
    changed = [a for a in range(256) if a != 2 and bank.cells[a] != shadow[a]]
    if changed:
        V("memory-modified-by-read", "cells %s changed by a read" % [hex(a) for a in changed[:6]], site=kind)
    if other.cells != other_before:
        V("other-bank-modified-by-read", "another bank changed", site=kind)
    latching_read = kind == "all-latch" and bank.has_latch
    if bank.number != 0 and not latching_read and bank.cells[2] != shadow[2]:
        # only a read that was asked to latch has any business writing the lock / latch byte
        V("lock-byte-modified-by-read", "bank %s lock byte %#x -> %#x by %s" % (
            key, shadow[2] if shadow[2] is not None else -1, bank.cells[2] if bank.cells[2] is not None else -1, kind),
          site=kind)
    if bank.number != 0 and (bank.has_latch or bank.has_lock) and plan["last"] >= 2:
        # (a bank whose last accessible location is below 2 has no reachable
        # lock byte: nothing a read could latch or un-latch)
        if bank.cells[2] == 0xAA and not (plan["lock"] == 0xAA and latch_image[0] is None):
            why = "after-garbled-answer" if any(f_ == "garble" for f_ in fired.values()) else \
                ("after-error" if sr.status == "raise" else "after-normal-return")
            V("bank-left-latched", "bank %s lock byte is 0xAA after %s (%s, %r); the un-latch write was %s" % (
                key, kind, sr.status, sr.exc, "sent" if any(_is_unlatch(c[1]) for c in sr.commands) else "never sent"),
              site=why)
    if comp is not None:
        probes["same-bank-read-on-another-line-concurrently"] = 1
        if cbank.has_latch and cbank.cells[2] == 0xAA:
            V("bank-left-latched", "the other line's unit (read_all of the same bank running at the same time) is left "
              "latched: lock byte 0xAA", site="concurrent-read")
        elif comp.status != "return":
            V("read-failed", "the other line's read_all ended %s %r" % (comp.status, comp.exc), site="concurrent-read")
    if mutated[0]:
        probes["mutation-during-read"] = 1
    if plan["unit"] == "device":
        probes["device-addressing"] = 1
    if plan["lock"] == 0xAA:
        probes["initial-lock-byte-aa"] = 1
    for c in sr.commands:
        if c[4]:
            probes["answer-dropped" if c[4] == "drop" else "answer-garbled"] = 1
    for x in vs:
        add_violation(res, x)
    res["digest"] = log.digest()
    res["shape"] = log.digest()[:16] + "|" + str(fault)
    res["events"] = len(log)
    res["vtime_s"] = bus.t_us * 1e-6
    res["nontrivial"] = bool(fired) or bool(mutated[0]) or any(p in probes for p in ("hole", "location-beyond-last"))
    res["probes"] = probes
    res["faults"] = {"answer-" + f_: 1 for f_ in set(fired.values())}
    if mutated[0]:
        res["faults"]["concurrent-mutation"] = mutated[0]
    res["_steps"] = sr.steps
    if res["violations"]:
        res["plan"] = plan
    res["sample"] = {"seed": plan["seed"], "kind": kind, "bank": key, "value": plan["value"], "last": plan["last"],
                     "holes": plan["holes"], "fault": fault, "status": sr.status,
                     "result": repr(sr.exc) if sr.exc else (repr(sr.value)[:120]),
                     "commands": [(str(c[1]), c[3]) for c in sr.commands[:8]]}
    return res


def _is_read(cmd):
    f = cmd.frame.as_integer
    if len(cmd.frame) == 16:
        return (f & 0xFF) == 0xC5 and (f >> 8) & 1 and (f >> 15) == 0
    return (f & 0xFFFF) == 0xFE3C


def _is_unlatch(cmd):
    f = cmd.frame.as_integer
    return (len(cmd.frame) == 16 and f == 0xC9FF) or (len(cmd.frame) == 24 and f == 0xC121FF)


def run_seed(seed, tier):
    base = gen_base(seed, tier)
    b = run_plan(base)
    out = [b]
    if b["violations"]:
        return _strip(out)
    steps = b["_steps"]
    idxs = list(range(steps))
    if tier == "quick" and len(idxs) > 16:
        r = plans.rng_for(seed, PROP + "-variants")
        idxs = sorted(set(idxs[:4] + idxs[-3:] + r.sample(idxs, 9)))
    for i in idxs:
        for fk in ("drop", "garble", "garble-same"):
            if fk == "garble-same" and tier == "quick" and (i + seed) % 3:
                continue
            p = copy.deepcopy(base)
            p["fault"] = [fk, i]
            out.append(run_plan(p))
    return _strip(out)


def _strip(results):
    for r_ in results:
        for k in [k for k in r_ if k.startswith("_")]:
            del r_[k]
    return results


def shrink(plan):
    if plan.get("companion"):
        p = copy.deepcopy(plan)
        p["companion"] = None
        yield p
    if plan["fault"]:
        p = copy.deepcopy(plan)
        p["fault"] = None
        yield p
    if plan["mutate"]:
        p = copy.deepcopy(plan)
        p["mutate"] = False
        yield p
    for i in range(len(plan["holes"])):
        p = copy.deepcopy(plan)
        del p["holes"][i]
        yield p
    for k, simple in (("lock", 0xFF), ("pattern", "ff"), ("unit", "gear")):
        if plan[k] != simple:
            p = copy.deepcopy(plan)
            p[k] = simple
            yield p
