"""C08 - gear query/set sequences report and establish exactly the gear's
state.  Engine busim: QueryDeviceTypes / QueryGroups / SetGroups stepped
against IEC 62386-102 gear models; answer faults and adversarial answer
streams."""
import copy

from dali.address import GearBroadcast, GearGroup, GearShort
from dali.exceptions import DALISequenceError
from dali.sequences import QueryDeviceTypes, QueryGroups, SetGroups

from sim import busim, drvsim, plans
from sim.core import EventLog, Violation
from sim.runner import add_violation, new_result

PROP = "C08"
LEVEL = "exploration"
TIERS = {
    "quick": {"seeds": 1000000, "chunk": 5000, "wall_s": 300, "shrink_s": 30},
    "thorough": {"seeds": 30000000, "chunk": 20000, "wall_s": 3000, "shrink_s": 120},
}
RULE = ("one seed -> one scenario: a target gear (short address, device-type list of length 0-8 from 0..253 incl. 0, "
        "16-bit group set) plus 0-3 bystanders (one of them possibly on the same short address: collisions); one of "
        "QueryDeviceTypes / QueryGroups / SetGroups to a short, int, group or broadcast destination; fault-free, or "
        "with silence / framing error injected at a seeded command index, or with an adversarial answer stream of "
        "length <= 6 over {none, error, 0, 1, 6, 6, 254, 255} repeating for ever. Non-trivial iff >= 2 commands were "
        "exchanged and (a fault fired or the state was non-empty); distinct = distinct (command, outcome) sequence.")
ASSUMPTIONS = [
    "gear model per DESIGN.md appendix A.1: QUERY DEVICE TYPE answers 254 / the type / 255; QUERY NEXT DEVICE TYPE answers ascending types then 254 and only directly after QUERY DEVICE TYPE or another QUERY NEXT",
    "send-twice commands act on the identical repeat within 100 ms with nothing in between",
    "several simultaneous answers collide into a framing error",
]
COMPONENTS = {"real": ["dali.sequences.QueryDeviceTypes, QueryGroups, SetGroups", "dali.gear.general command classes and responses"],
              "stub": ["DALI bus and control gear (sim/busim.py models)", "driver (the sequence is stepped directly, EnableDeviceType inserted as every driver does)"]}
PROBES = ["read-modify-write-with-the-returned-set", "earlier-calls-in-same-process", "stacked-tridonic", "stacked-hasseb", "stacked-luba", "stacked-sci", "never-ending-stream", "collision", "answer-dropped", "answer-garbled", "dt-list-with-zero", "dt-list-long",
          "setgroups-diff-minimal", "setgroups-full-rewrite", "repeat-stream"]

ALPHABET = [None, "error", 0, 1, 6, 6, 254, 255]


def gen_plan(seed, tier="quick"):
    r = plans.rng_for(seed, PROP)
    n_dt = r.choice([0, 1, 1, 2, 2, 3, 4, 8])
    dts = sorted(r.sample(range(0, 254), n_dt))
    if n_dt and r.random() < 0.4:
        dts[0] = 0
        dts = sorted(set(dts))
    if r.random() < 0.01:
        # a unit that implements (nearly) every device type there is: 0..253
        dts = [d for d in range(254) if d != r.choice([None, None, 0, 253, r.randrange(254)])]
    groups = r.choice([0, 0xFFFF, 1, 0x8000, 0x00FF, 0xFF00, 0x0100, 0x0080, r.getrandbits(16), r.getrandbits(16)])
    short = r.randrange(64)
    target = {"short": short, "groups": groups, "dts": dts}
    others = []
    for _ in range(r.choice([0, 0, 1, 2, 3])):
        others.append({"short": r.choice([a for a in range(64) if a != short]), "groups": r.getrandbits(16),
                       "dts": sorted(r.sample(range(0, 254), r.randrange(0, 3)))})
    if r.random() < 0.08:
        others.append({"short": short, "groups": r.getrandbits(16), "dts": sorted(r.sample(range(254), 2))})
    seq = r.choice(["types", "types", "groups", "set", "set"])
    dest = r.choice(["short", "short", "int", "group", "broadcast"]) if seq == "set" else r.choice(["short", "int"])
    plan = {"engine": "busim", "property": PROP, "seed": seed, "target": target, "others": others,
            "seq": seq, "dest": dest, "want": r.choice([0, 0xFFFF, groups, groups ^ (1 << r.randrange(16)),
                                                       r.getrandbits(16), r.getrandbits(16) & r.getrandbits(16)]),
            "fault": None, "script": None}
    if dest == "group":
        plan["dest_group"] = r.randrange(16)
    h = plans.rng_for(seed, PROP + "-history")
    if seq == "set" and dest in ("short", "int") and h.random() < 0.25:
        # read - modify - write: the application edits the set QueryGroups handed it and passes that very object on
        plan["rmw"] = [[h.randrange(16) for _ in range(h.randrange(0, 3))], [h.randrange(16) for _ in range(h.randrange(0, 3))]]
        plan["fault"] = None
    if h.random() < 0.3:
        # earlier calls of the same sequences in this process, against some other unit
        plan["prelude"] = [[h.choice(["set", "set", "groups", "types"]),
                            h.choice(["short", "int", "group", "group", "broadcast"]), h.randrange(16),
                            h.choice([0, 0xFFFF, h.getrandbits(16), h.getrandbits(16)])]
                           for _ in range(h.randrange(1, 4))]
    x = r.random()
    if x < 0.3:
        plan["fault"] = [r.randrange(0, 12), r.choice(["drop", "garble", "garble", "garble-same"])]
    elif x < 0.55 and seq == "types":
        # (type numbers the library has no name for are as good as any: 2-4 of them join the alphabet)
        xa = plans.rng_for(seed, PROP + "-alphabet")
        extra = [xa.randrange(2, 254) for _ in range(2)]
        alpha = ALPHABET + extra + extra + [255] if xa.random() < 0.5 else ALPHABET
        plan["script"] = [r.choice(alpha) for _ in range(r.randrange(1, 7))]
    if seed % 40 == 13:
        # 'stacked' transport: the same scenario through a real asyncio driver and
        # its gateway model (fault-free; serial gateways report collisions as silence)
        plan["fault"] = plan["script"] = None
        plan["transport"] = drvsim.DRIVERS[(seed // 40) % 4]
        if plan["transport"] in ("luba", "sci"):
            plan["others"] = [o for o in plan["others"] if o["short"] != short]
    return plan


def _mk_gear(d, name):
    return busim.Gear(short=d["short"], groups={g for g in range(16) if d["groups"] >> g & 1},
                      device_types=d["dts"], name=name)


def run_plan(plan):
    res = new_result()
    t = plan["target"]
    target = _mk_gear(t, "T")
    others = plan["others"]
    if plan["script"] is not None:
        # the scripted unit is alone on its address: the script is the adversary
        others = [o for o in others if o["short"] != t["short"]]
    units = [target] + [_mk_gear(o, "O%d" % i) for i, o in enumerate(others)]
    if plan["script"] is not None:
        target.answer_script = {"answers": list(plan["script"]), "pos": 0, "cycle": True}
    bus = busim.Bus(units)
    log = EventLog()
    dest_kind = plan["dest"]
    if dest_kind == "short":
        dest = GearShort(t["short"])
    elif dest_kind == "int":
        dest = t["short"]
    elif dest_kind == "group":
        dest = GearGroup(plan["dest_group"])
    else:
        dest = GearBroadcast()
    for pseq, pdest, pgroup, pwant in plan.get("prelude") or []:
        # history: the outcome is not judged here, only what it may leave behind in the library
        scratch = busim.Gear(short=9, groups={pgroup, 3}, device_types=[0, 6], name="P")
        pd = {"short": GearShort(9), "int": 9, "group": GearGroup(pgroup), "broadcast": GearBroadcast()}[pdest]
        if pseq == "types" and pdest in ("group", "broadcast"):
            pd = GearShort(9)
        pg = {"set": lambda: SetGroups(pd, {g for g in range(16) if pwant >> g & 1}),
              "groups": lambda: QueryGroups(pd), "types": lambda: QueryDeviceTypes(pd)}[pseq]()
        busim.run_sequence(pg, busim.Bus([scratch]), cap=300, log=EventLog())
    want = {g for g in range(16) if plan["want"] >> g & 1}
    before = {u.name: set(u.groups) for u in units}
    for u in units:
        u.groups_before = set(u.groups)
    if plan["seq"] == "types":
        gen = QueryDeviceTypes(dest)
    elif plan["seq"] == "groups":
        gen = QueryGroups(dest)
    elif plan.get("rmw") and not plan.get("transport"):
        twin = busim.Gear(short=(t["short"] + 1) % 64, groups=set(target.groups), name="W")
        if not any(u.short == twin.short for u in units):
            units.append(twin)
            bus.units.append(twin)
            before["W"] = set(twin.groups)
            twin.groups_before = set(twin.groups)
        q = busim.run_sequence(QueryGroups(dest), bus, cap=10, log=EventLog())
        held = q.value if q.status == "return" else set(target.groups)
        for g_ in plan["rmw"][0]:
            held.add(g_)
        for g_ in plan["rmw"][1]:
            held.discard(g_)
        want = set(held)
        gen = SetGroups(dest, held)
    else:
        gen = SetGroups(dest, set(want))
    faults = {plan["fault"][0]: plan["fault"][1]} if plan["fault"] else {}
    cap = 2 + 256 + 40
    transport = plan.get("transport")
    if transport:
        sr, rr_ = drvsim.run_stacked(transport, plan["seed"], units, lambda: gen)
        log = rr_.world.log
        bus.t_us = int(rr_.vtime * 1e6)
    else:
        sr = busim.run_sequence(gen, bus, answer_faults=faults, cap=cap, log=log)
    vs = []

    def V(clause, detail, site=None):
        vs.append(Violation(PROP, clause, detail, driver=plan["seq"], site=site))

    fired = [c for c in sr.commands if c[4]]
    collided = any(c[2][0] == "error" and not c[4] for c in sr.commands) and plan["script"] is None
    same_addr = [o for o in others if o["short"] == t["short"]]
    disturbed = bool(fired) or bool(same_addr) or plan["script"] is not None
    probes = {}
    if plan.get("prelude"):
        probes["earlier-calls-in-same-process"] = 1
    if sr.status == "cap":
        V("sequence-does-not-terminate", "%s still yielding after %d commands (script %s)" % (
            plan["seq"], cap, plan["script"]), site="scripted" if plan["script"] is not None else "models")
    elif sr.status == "raise" and not isinstance(sr.exc, DALISequenceError):
        V("unexpected-exception", "%s raised %r" % (plan["seq"], sr.exc), site=type(sr.exc).__name__)
    elif plan["seq"] == "types":
        truth = list(t["dts"])
        if plan["script"] is not None:
            exp = _script_expect(plan["script"])
            if exp == "either":
                pass
            elif sr.status == "return":
                if exp is None:
                    V("wrong-data-from-misbehaving-unit", "answer stream %s (repeating) made QueryDeviceTypes "
                      "return %r instead of DALISequenceError" % (plan["script"], sr.value), site="scripted")
                elif sr.value != exp:
                    V("wrong-device-types", "answer stream %s: returned %r, a conforming reading gives %r" % (
                        plan["script"], sr.value, exp), site="scripted")
            elif exp is not None:
                V("valid-answer-stream-rejected", "answer stream %s is a conforming unit (types %s) but the "
                  "sequence raised %r" % (plan["script"], exp, sr.exc), site="scripted")
        elif sr.status == "return":
            if sr.value != truth:
                V("wrong-device-types", "unit has %s, QueryDeviceTypes returned %r (fault %s, same-address units %d)" % (
                    truth, sr.value, plan["fault"], len(same_addr)), site="faulted" if disturbed else "fault-free")
        elif not disturbed:
            V("valid-state-rejected", "unit has types %s, no fault, but QueryDeviceTypes raised %r" % (truth, sr.exc),
              site="types-with-0" if 0 in truth else "types")
    elif plan["seq"] == "groups":
        truth = set(target.groups)
        if sr.status == "return":
            if sr.value != truth:
                V("wrong-groups", "unit is in %s, QueryGroups returned %s (fault %s)" % (
                    sorted(truth), sorted(sr.value), plan["fault"]), site="faulted" if disturbed else "fault-free")
        elif not disturbed:
            V("valid-state-rejected", "QueryGroups raised %r without any fault" % (sr.exc,), site="groups")
    else:
        addressed = [u for u in units if _addressed(u, dest_kind, t, plan)]
        if sr.status == "return" and dest_kind in ("short", "int") and not transport and \
                any(c[4] for c in sr.commands[:2]):
            # the read of the current membership was lost or garbled: the sequence stops with
            # DALISequenceError - it does not carry on some other way and report success
            V("disturbed-read-not-reported", "SetGroups(%s): its membership read was disturbed (%s) but it returned normally "
              "after %d commands" % (dest_kind, plan["fault"], len(sr.commands)), site=dest_kind)
        if sr.status == "return":
            for u in addressed:
                if u.groups != want and not (disturbed and dest_kind in ("short", "int")):
                    V("groups-not-established", "unit %s ended in %s, requested %s (dest %s)" % (
                        u.name, sorted(u.groups), sorted(want), dest_kind), site=dest_kind)
                    break
                if u.groups != want and disturbed:
                    # the sequence read a faulted state yet claimed success
                    V("groups-not-established", "unit %s ended in %s, requested %s, sequence returned normally "
                      "although its read was disturbed (%s)" % (u.name, sorted(u.groups), sorted(want), plan["fault"]),
                      site=dest_kind + "-faulted")
                    break
            for u in units:
                if u not in addressed and u.groups != before[u.name]:
                    V("bystander-changed", "unit %s not addressed but groups changed" % u.name, site=dest_kind)
            if dest_kind in ("short", "int") and not disturbed:
                if transport:
                    n_changes = sum(1 for b_, v_ in sr.frames if 0x60 <= (v_ & 0xFF) <= 0x7F and (v_ >> 8) & 1
                                    and (v_ >> 15) == 0) // (2 if transport == "hasseb" else 1)
                else:
                    n_changes = sum(1 for c in sr.commands if 0x60 <= (c[1].frame.as_integer & 0xFF) <= 0x7F)
                need = len(before["T"] ^ want)
                if n_changes != need:
                    V("unnecessary-changes", "%d Add/Remove commands for a symmetric difference of %d" % (
                        n_changes, need), site=dest_kind)
                probes["setgroups-diff-minimal"] = 1
            elif dest_kind in ("group", "broadcast"):
                probes["setgroups-full-rewrite"] = 1
        elif not disturbed:
            V("valid-state-rejected", "SetGroups raised %r without any fault" % (sr.exc,), site="set")
    if plan.get("rmw") and not transport and sr.status == "return" and len(same_addr) == 0:
        probes["read-modify-write-with-the-returned-set"] = 1
        for u in units:
            if u.name == "W":
                q2 = busim.run_sequence(QueryGroups(GearShort(u.short)), bus, cap=10, log=EventLog())
                if q2.status != "return" or q2.value != u.groups:
                    V("wrong-groups", "after a read-modify-write on another unit QueryGroups(%d) returned %s, the unit is in %s" % (
                        u.short, sorted(q2.value) if q2.status == "return" else q2.exc, sorted(u.groups)), site="after-rmw")
    for c in fired:
        probes["answer-dropped" if c[4] == "drop" else "answer-garbled"] = 1
    if collided:
        probes["collision"] = 1
    if plan["script"] is not None:
        probes["never-ending-stream" if _script_expect(plan["script"]) is None else "repeat-stream"] = 1
    if transport:
        probes["stacked-" + transport] = 1
    if 0 in t["dts"] and len(t["dts"]) > 1:
        probes["dt-list-with-zero"] = 1
    if len(t["dts"]) >= 4:
        probes["dt-list-long"] = 1
    for v in vs:
        add_violation(res, v)
    res["digest"] = log.digest()
    res["shape"] = log.digest()[:16]
    res["events"] = len(log)
    res["vtime_s"] = bus.t_us * 1e-6
    res["nontrivial"] = sr.steps >= 2 and (bool(fired) or plan["script"] is not None or bool(t["dts"]) or bool(t["groups"]))
    res["probes"] = probes
    res["faults"] = {("answer-" + c[4]): 1 for c in fired}
    if plan["script"] is not None:
        res["faults"]["adversarial-answer-stream"] = 1
    if transport:
        res["shape"] = log.shape()
    if res["violations"]:
        res["plan"] = plan
    res["sample"] = {"seed": plan["seed"], "transport": transport or "direct", "seq": plan["seq"], "dest": dest_kind, "target": t, "fault": plan["fault"],
                     "script": plan["script"], "status": sr.status,
                     "value": sorted(sr.value) if isinstance(sr.value, (set, list)) else repr(sr.value),
                     "commands": [(str(c[1]), c[3]) for c in sr.commands[:8]]}
    return res


def _addressed(u, dest_kind, t, plan):
    if dest_kind in ("short", "int"):
        return u.short == t["short"]
    if dest_kind == "group":
        # group membership at the time the command is received decides; a unit
        # removed from the destination group mid-way stops listening
        return plan["dest_group"] in u.groups_before
    return True


def _script_expect(script):
    """What a conforming reading of the (endlessly repeating) answer stream
    gives: the list of types, or None if the stream is not a conforming unit
    (silent, garbled, repeated / descending types, never-ending)."""
    it = 0

    def nxt():
        nonlocal it
        v = script[it % len(script)]
        it += 1
        return v
    first = nxt()
    if first is None or first == "error":
        return None
    if first == 254:
        return []
    if first < 254:
        return [first]
    out = []
    last = -1
    for _ in range(300):
        v = nxt()
        if v is None or v == "error":
            return None
        if v == 254:
            return out if out else None
        if v == 255:
            return "either"     # 255 after the first answer: the property does not settle it
        if v <= last:
            return None
        out.append(v)
        last = v
    return None


def run_seed(seed, tier):
    return [run_plan(gen_plan(seed, tier))]


def shrink(plan):
    for i in range(len(plan.get("prelude") or [])):
        p = copy.deepcopy(plan)
        del p["prelude"][i]
        yield p
    if plan.get("transport"):
        p = copy.deepcopy(plan)
        del p["transport"]
        yield p
    for i in range(len(plan["others"])):
        p = copy.deepcopy(plan)
        del p["others"][i]
        yield p
    if plan["fault"]:
        p = copy.deepcopy(plan)
        p["fault"] = None
        yield p
    if plan["script"] and len(plan["script"]) > 1:
        for i in range(len(plan["script"])):
            p = copy.deepcopy(plan)
            del p["script"][i]
            yield p
    t = plan["target"]
    if t["dts"]:
        for i in range(len(t["dts"])):
            p = copy.deepcopy(plan)
            del p["target"]["dts"][i]
            yield p
    for k in ("groups",):
        if t[k]:
            p = copy.deepcopy(plan)
            p["target"][k] = 0
            yield p
    if plan["want"]:
        p = copy.deepcopy(plan)
        p["want"] = 0
        yield p
