"""C19 - serial receivers deframe any byte stream like the protocol's grammar.
Engine rxsim: real LubaProtocol / SCIRS232Protocol objects are fed torn,
noisy, line-faulted streams under several seeded chunkings; an independent
reference deframer (sim/refs/deframers.py) gives the expected items."""
import copy

import dali.command
import dali.frame
import dali.driver.serial as sermod

from sim import plans
from sim.core import EventLog, Violation
from sim.refs import deframers as ref
from sim.runner import add_violation, new_result

import logging
logging.disable(logging.CRITICAL)

PROP = "C19"
LEVEL = "exploration"
TIERS = {
    "quick": {"seeds": 300000, "chunk": 1500, "wall_s": 300, "shrink_s": 40},
    "thorough": {"seeds": 9000000, "chunk": 5000, "wall_s": 3000, "shrink_s": 120},
}
RULE = ("one seed -> one byte stream (LUBA for even seeds, SCI for odd) assembled from grammar-guided segments: "
        "valid frames of every type, headers with every length byte 0..255, corrupted checksums, truncated frames, "
        "noise with embedded start bytes, start bytes inside payloads; then 0-3 line faults (bit flip, dropped, "
        "duplicated, inserted byte); then filler + a well-formed probe frame. The stream is delivered to a fresh "
        "real protocol object under 4 chunkings (whole, byte-wise, two seeded random splits) and the queue contents "
        "are compared with the reference deframer's items. Streams containing a checksum-valid frame that is "
        "malformed for its type are set aside. Non-trivial iff the stream holds >= 2 frames and at least one "
        "dropped/corrupted element; distinct = distinct sequence of segment kinds, faults and chunk counts.")
ASSUMPTIONS = [
    "reference grammar LUBA: scan for 'Y'; command; length - 0 or > 20 cannot fit: drop the header and resume at the next byte; payload; XOR checksum over command..payload; bad checksum or unknown type -> frame dropped",
    "reference grammar SCI: groups of five bytes from the start of the stream; XOR over the first four; bad checksum, unknown code or unknown error type -> group dropped",
    "decoding of an observed frame into a command object is delegated to the library's own decoder (C01 not judged)",
]
COMPONENTS = {
    "real": ["DriverLubaRs232.LubaProtocol (data_received, _process_byte, event/response handlers)",
             "DriverSCIRS232.SCIRS232Protocol (data_received, _process_byte, handlers)", "DistributorQueue, asyncio.Queue"],
    "stub": ["serial line / transport (bytes are handed to data_received directly)"],
}
PROBES = ["length-byte-21-23", "length-byte-0", "length-byte-over-23", "bad-checksum", "truncated-frame",
          "start-byte-in-payload", "line-fault", "malformed-set-aside", "edt-context", "probe-accepted",
          "unknown-type", "noise"]


# ---------------------------------------------------------------------------
def gen_luba_stream(r, long=False):
    segs = []
    kinds = []

    def ev(etype, info, tail):
        tick = r.getrandbits(16)
        return ref.luba_frame(0x31, [tick >> 8, tick & 0xFF, 0, (etype << 6) | info] + list(tail))

    allk = ["raw", "cmd16", "cmd24", "edt+ext", "conf", "conf", "event-other", "event-err",
            "devinfo", "settings", "txrsp", "known-unexpected", "unknown-type", "any-length",
            "any-length", "bad-checksum", "truncated", "noise", "noise-Y", "payload-Y", "long-cmd",
            "malformed", "cmd-odd-info"]
    # a long stretch of monitoring: many items of one or two kinds queue up before anybody takes them out
    hot = [r.choice(["raw", "cmd16", "cmd24", "conf", "devinfo", "settings", "txrsp", "event-err"]) for _ in range(2)]
    for _ in range(r.randrange(36, 120) if long else r.randrange(2, 14)):
        k = r.choice(hot * 6 + [r.choice(allk)]) if long else r.choice(allk)
        kinds.append(k)
        if k == "raw":
            segs.append(ev(2, 8, [r.randrange(256)]))
        elif k == "cmd16":
            segs.append(ev(2, 16, [r.randrange(256), r.randrange(256)]))
        elif k == "cmd24":
            segs.append(ev(2, 24, [r.randrange(256) for _ in range(3)]))
        elif k == "edt+ext":
            dt = r.choice([1, 4, 5, 6, 8])
            segs.append(ev(2, 16, [0xC1, dt]))
            if r.random() < 0.3:
                segs.append(ev(2, 8, [r.randrange(256)]))
            segs.append(ev(2, 16, [r.randrange(256) | 1, r.randrange(0xE0, 0x100)]))
        elif k == "conf":
            n = r.choice([2, 2, 3, 0, 1])
            if r.random() < 0.3:
                segs.append(ev(0, 16, [r.randrange(256), 0xC1, r.choice([1, 6, 8])]))
            segs.append(ev(0, 8 * n, [r.randrange(256)] + [r.randrange(256) for _ in range(n)]))
        elif k == "event-other":
            segs.append(ev(r.choice([1, 3]), r.randrange(64), [r.randrange(256) for _ in range(r.randrange(0, 4))]))
        elif k == "event-err":
            segs.append(ev(2, r.choice([0, 33, 40, 62, 63]), [r.randrange(256) for _ in range(r.randrange(0, 3))]))
        elif k == "cmd-odd-info":
            # the bit count in the status byte is only range-checked (1..32): the frame is what the data bytes hold -
            # a 17- or 20-bit frame carried in three bytes, a 16-bit one in a three-byte field
            nb = r.choice([2, 3, 3, 4])
            segs.append(ev(2, r.choice([x for x in (1, 9, 12, 15, 16, 17, 20, 23, 24, 25, 31, 32) if x != 8 * nb]),
                           [r.randrange(256) for _ in range(nb)]))
        elif k == "long-cmd":
            segs.append(ev(2, 32, [r.randrange(256) for _ in range(r.randrange(4, 7))]))
        elif k == "devinfo":
            segs.append(ref.luba_frame(0x21, [r.randrange(256) for _ in range(20)]))
        elif k == "settings":
            segs.append(ref.luba_frame(0x2B, [r.randrange(256) for _ in range(r.choice([2, 3, 3, 5]))]))
        elif k == "txrsp":
            segs.append(ref.luba_frame(0x33, [r.randrange(256) for _ in range(r.choice([1, 2]))]))
        elif k == "known-unexpected":
            segs.append(ref.luba_frame(r.choice([0x2A, 0x2C, 0x2D, 0x20, 0x32, 0x34, 0x35, 0x36, 0x37]),
                                       [r.randrange(256) for _ in range(r.randrange(1, 8))]))
        elif k == "unknown-type":
            c = r.choice([x for x in range(256) if x not in ref.LUBA_KNOWN])
            segs.append(ref.luba_frame(c, [r.randrange(256) for _ in range(r.randrange(1, 10))]))
        elif k == "any-length":
            ln = r.choice([0, 19, 20, 21, 22, 23, 24, 25, 255, r.randrange(256), r.randrange(256)])
            body = bytes([0x59, r.choice([0x31, 0x21, 0x2B, r.randrange(256)]), ln])
            body += bytes(r.randrange(256) for _ in range(r.choice([0, 3, min(ln, 40) + 1, 30])))
            segs.append(body)
        elif k == "bad-checksum":
            f = bytearray(ev(2, 16, [r.randrange(256), r.randrange(256)]))
            f[-1] ^= r.randrange(1, 256)
            segs.append(bytes(f))
        elif k == "truncated":
            f = ev(2, 24, [r.randrange(256) for _ in range(3)])
            segs.append(f[:r.randrange(1, len(f))])
        elif k == "noise":
            segs.append(bytes(r.choice([x for x in range(256) if x != 0x59]) for _ in range(r.randrange(1, 12))))
        elif k == "noise-Y":
            segs.append(bytes(r.choice([0x59, 0x59, r.randrange(256)]) for _ in range(r.randrange(1, 8))))
        elif k == "payload-Y":
            segs.append(ev(2, 24, [0x59, r.choice([0x59, 0x31]), r.choice([0x59, 4])]))
        elif k == "malformed":
            if r.random() < 0.15:
                c = r.choice(["ev3", "conf4", "info", "settings1", "txrsp3"])
                if c == "ev3":
                    segs.append(ref.luba_frame(0x31, [1, 2, 3]))
                elif c == "conf4":
                    segs.append(ref.luba_frame(0x31, [1, 2, 0, 0x10]))
                elif c == "info":
                    segs.append(ref.luba_frame(0x21, [0] * r.choice([18, 5, 19])))
                elif c == "settings1":
                    segs.append(ref.luba_frame(0x2B, [7]))
                else:
                    segs.append(ref.luba_frame(0x33, [1, 2, 3]))
            else:
                segs.append(ev(2, 8, [r.randrange(256)]))
    return b"".join(segs), kinds


def gen_sci_stream(r, long=False):
    segs = []
    kinds = []
    allk = ["ok", "no", "raw", "cmd16", "cmd24", "edt+ext", "error", "error-unknown", "unsupported",
            "unknown-code", "bad-checksum", "noise5", "noise", "truncated"]
    hot = [r.choice(["ok", "no", "raw", "cmd16", "cmd24", "error"]) for _ in range(2)]
    for _ in range(r.randrange(36, 120) if long else r.randrange(2, 16)):
        k = r.choice(hot * 6 + [r.choice(allk)]) if long else r.choice(allk)
        kinds.append(k)
        dev = r.randrange(16) << 4
        if k == "ok":
            segs.append(ref.sci_frame(dev | 0, *[r.randrange(256) for _ in range(3)]))
        elif k == "no":
            segs.append(ref.sci_frame(dev | 1, 0, 0, 0))
        elif k == "raw":
            segs.append(ref.sci_frame(dev | 2, r.randrange(256), r.randrange(256), r.randrange(256)))
        elif k == "cmd16":
            segs.append(ref.sci_frame(dev | 3, r.randrange(256), r.randrange(256), r.randrange(256)))
        elif k == "cmd24":
            segs.append(ref.sci_frame(dev | 8, r.randrange(256), r.randrange(256), r.randrange(256)))
        elif k == "edt+ext":
            segs.append(ref.sci_frame(dev | 3, 0, 0xC1, r.choice([1, 4, 6, 8])))
            if r.random() < 0.3:
                segs.append(ref.sci_frame(dev | 2, 0, 0, r.randrange(256)))
            segs.append(ref.sci_frame(dev | 3, 0, r.randrange(256) | 1, r.randrange(0xE0, 0x100)))
        elif k == "error":
            segs.append(ref.sci_frame(dev | 7, 0, 0, r.randrange(1, 6)))
        elif k == "error-unknown":
            segs.append(ref.sci_frame(dev | 7, r.randrange(256), 0, r.choice([0, 6, 7, 200, r.randrange(256)])))
        elif k == "unsupported":
            segs.append(ref.sci_frame(dev | r.choice([4, 5, 6]), *[r.randrange(256) for _ in range(3)]))
        elif k == "unknown-code":
            segs.append(ref.sci_frame(dev | r.randrange(9, 16), *[r.randrange(256) for _ in range(3)]))
        elif k == "bad-checksum":
            f = bytearray(ref.sci_frame(dev | 3, 0, r.randrange(256), r.randrange(256)))
            f[-1] ^= r.randrange(1, 256)
            segs.append(bytes(f))
        elif k == "noise5":
            segs.append(bytes(r.randrange(256) for _ in range(5)))
        elif k == "noise":
            segs.append(bytes(r.randrange(256) for _ in range(r.randrange(1, 5))))
        elif k == "truncated":
            f = ref.sci_frame(dev | 2, 0, 0, r.randrange(256))
            segs.append(f[:r.randrange(1, 5)])
    return b"".join(segs), kinds


def line_faults(r, stream):
    s = bytearray(stream)
    faults = []
    if r.random() < 0.4 and len(s) > 2:
        for _ in range(r.randrange(1, 4)):
            if not s:
                break
            pos = r.randrange(len(s))
            k = r.choice(["flip", "drop", "dup", "insert"])
            faults.append(k)
            if k == "flip":
                s[pos] ^= 1 << r.randrange(8)
            elif k == "drop":
                del s[pos]
            elif k == "dup":
                s.insert(pos, s[pos])
            else:
                s.insert(pos, r.randrange(256))
    return bytes(s), faults


def gen_plan(seed, tier="quick"):
    r = plans.rng_for(seed, PROP)
    proto = "luba" if seed % 2 == 0 else "sci"
    long = seed % 50 in (7, 8)
    stream, kinds = (gen_luba_stream if proto == "luba" else gen_sci_stream)(r, long)
    stream, faults = line_faults(r, stream)
    cuts = []
    for _ in range(2):
        n = len(stream)
        k = r.randrange(1, max(2, min(12, n)))
        cuts.append(sorted(set(r.randrange(1, n) for _ in range(k))) if n > 1 else [])
    return {"engine": "rxsim", "property": PROP, "driver": proto, "seed": seed,
            "stream": stream.hex(), "kinds": kinds, "faults": faults, "cuts": cuts,
            "probe_value": r.randrange(256)}


# ---------------------------------------------------------------------------
def _norm_cmd(c):
    return (type(c).__name__, len(c.frame), c.frame.as_integer)


def _expect_cmd(bits, value, dt):
    c = dali.command.from_frame(dali.frame.ForwardFrame(bits, value), devicetype=dt)
    return _norm_cmd(c)


def feed(proto, stream, chunks, other=None, flush_at=None):
    """Returns (items per queue as dict, exceptions).  `other`: the byte stream of a second serial
    port whose receiver object is alive at the same time and gets its bytes in between."""
    cls = sermod.DriverLubaRs232.LubaProtocol if proto == "luba" else sermod.DriverSCIRS232.SCIRS232Protocol
    p = cls()
    q = cls() if other is not None else None
    child = sermod.DistributorQueue(p.queue_rx_dali)
    excs = []
    pos = 0
    opos = 0
    early = {"raw": [], "info": []}
    for c in chunks:
        try:
            p.data_received(stream[pos:c])
        except Exception as e:              # noqa: BLE001 - judged
            excs.append((pos, type(e).__name__, str(e)[:80], p._rx_state.name))
        pos = c
        if flush_at is not None and pos >= flush_at:
            # a send() of the application starts here: it flushes stale answers (what is queued is taken out
            # first, so that the flush itself has nothing to remove) - reception goes on undisturbed
            flush_at = None
            while not p._queue_rx_raw_dali.empty():
                early["raw"].append(p._queue_rx_raw_dali.get_nowait())
            iq = p._queue_rx_luba_cmd if proto == "luba" else p._queue_rx_info
            while not iq.empty():
                early["info"].append(tuple(iq.get_nowait()))
            try:
                p.reset_dali_response()
            except Exception as e:          # noqa: BLE001
                excs.append((pos, type(e).__name__, "reset_dali_response: " + str(e)[:60], p._rx_state.name))
        if q is not None and opos < len(other):
            step = 1 + (c % 3)
            try:
                q.data_received(other[opos:opos + step])
            except Exception:               # noqa: BLE001 - the other port is not what is judged
                pass
            opos += step
    out = {"raw": list(early["raw"]), "cmd": [], "conf": [], "info": list(early["info"])}
    while not p._queue_rx_raw_dali.empty():
        out["raw"].append(p._queue_rx_raw_dali.get_nowait())
    while not child.empty():
        out["cmd"].append(_norm_cmd(child.get_nowait()))
    if proto == "luba":
        while not p._queue_tx_conf.empty():
            c = p._queue_tx_conf.get_nowait()
            out["conf"].append((c.tx_id, _norm_cmd(c.message) if c.message is not None else None))
        while not p._queue_rx_luba_cmd.empty():
            out["info"].append(tuple(p._queue_rx_luba_cmd.get_nowait()))
    else:
        while not p._queue_rx_info.empty():
            out["info"].append(tuple(p._queue_rx_info.get_nowait()))
    return out, excs


def expected(proto, stream):
    items, malformed = (ref.luba_reference if proto == "luba" else ref.sci_reference)(stream)
    out = {"raw": [], "cmd": [], "conf": [], "info": []}
    for it in items:
        if it[0] == "raw":
            out["raw"].append(it[1])
        elif it[0] == "cmd":
            out["cmd"].append(_expect_cmd(it[1], it[2], it[3]))
        elif it[0] == "conf":
            if it[2] is None:
                out["conf"].append((it[1], None))
            else:
                out["conf"].append((it[1], _expect_cmd(it[2], it[3], it[4])))
        elif it[0] in ("info", "settings"):
            out["info"].append(tuple(it[1]))
        elif it[0] == "sysmsg":
            out["info"].append((it[1], it[2]))
    return out, malformed


def run_plan(plan):
    res = new_result()
    proto = plan["driver"]
    body = bytes.fromhex(plan["stream"])
    # filler so that a correct receiver is idle again, then a probe frame
    if proto == "luba":
        filler = bytes(ref.luba_pending(body))
        probe = ref.luba_frame(0x31, [0, 1, 0, (2 << 6) | 8, plan["probe_value"]])
    else:
        filler = bytes((-len(body)) % 5)
        probe = ref.sci_frame(0x52, 0, 0, plan["probe_value"])
    stream = body + filler + probe
    exp, malformed = expected(proto, stream)
    log = EventLog()
    log.add(0, "stream", proto, (len(stream), tuple(plan["kinds"]), tuple(plan["faults"])))
    vs = []

    def V(clause, detail, site=None):
        vs.append(Violation(PROP, clause, detail, driver=proto, site=site))

    probes = {}
    n = len(stream)
    chunkings = {"whole": [n], "bytes": list(range(1, n + 1))}
    for i, cuts in enumerate(plan["cuts"]):
        chunkings["random%d" % i] = [c for c in cuts if c < n] + [n]
    if malformed:
        probes["malformed-set-aside"] = 1
    else:
        if not exp["raw"] or exp["raw"][-1] != plan["probe_value"]:
            raise RuntimeError("reference did not accept the probe frame: harness bug")
        results = {}
        o_stream, _k = (gen_luba_stream if proto == "luba" else gen_sci_stream)(plans.rng_for(plan["seed"], PROP + "-other-port"))
        chunkings["bytes+second-port"] = list(range(1, n + 1))
        chunkings["bytes+flush"] = list(range(1, n + 1))
        fl = plans.rng_for(plan["seed"], PROP + "-flush").randrange(1, max(2, len(body)))
        for name, chunks in chunkings.items():
            got, excs = feed(proto, stream, chunks, other=bytes(o_stream) * 3 if name == "bytes+second-port" else None,
                             flush_at=fl if name == "bytes+flush" else None)
            results[name] = got
            log.add(0, "chunking", name, (len(chunks), len(excs)))
            if excs:
                V("exception-in-data-received", "chunking %s: %s (first at byte %d, rx state %s)" % (
                    name, excs[0][1] + ": " + excs[0][2], excs[0][0], excs[0][3]), site=excs[0][1])
            if not got["raw"] or got["raw"][-1] != plan["probe_value"]:
                V("receiver-dead-after-stream", "chunking %s: well-formed probe frame after the stream "
                  "was not accepted (raw queue %s)" % (name, got["raw"][-3:]))
            for q in ("raw", "cmd", "conf", "info"):
                if got[q] != exp[q]:
                    V("items-differ-from-reference", "chunking %s, queue %s: got %s, reference %s" % (
                        name, q, _short(got[q], exp[q]), _short(exp[q], got[q])), site=q)
                    break
        base = results["whole"]
        for name, got in results.items():
            if got != base:
                V("chunking-dependent", "chunking %s gives a different result from 'whole'" % name)
                break
        probes["probe-accepted"] = 1
    kinds = plan["kinds"]
    for k, p in (("bad-checksum", "bad-checksum"), ("truncated", "truncated-frame"), ("payload-Y", "start-byte-in-payload"),
                 ("unknown-type", "unknown-type"), ("unknown-code", "unknown-type"), ("noise", "noise"),
                 ("edt+ext", "edt-context")):
        if k in kinds:
            probes[p] = 1
    if plan["faults"]:
        probes["line-fault"] = len(plan["faults"])
    if proto == "luba":
        for i in range(len(body) - 2):
            if body[i] == 0x59:
                ln = body[i + 2]
                if 21 <= ln <= 23:
                    probes["length-byte-21-23"] = 1
                elif ln == 0:
                    probes["length-byte-0"] = 1
                elif ln > 23:
                    probes["length-byte-over-23"] = 1
    for v in vs:
        add_violation(res, v)
    res["digest"] = log.digest()
    res["shape"] = log.shape() + "|" + ",".join(kinds) + "|" + ",".join(plan["faults"])
    res["events"] = len(log)
    res["nontrivial"] = len(kinds) >= 2 and bool(set(kinds) & {"bad-checksum", "truncated", "any-length", "noise",
                                                              "noise-Y", "noise5", "unknown-type", "unknown-code",
                                                              "error-unknown"} or plan["faults"])
    res["probes"] = probes
    res["faults"] = {"line-" + f: plan["faults"].count(f) for f in set(plan["faults"])}
    if res["violations"]:
        res["plan"] = plan
    res["sample"] = {"seed": plan["seed"], "protocol": proto, "segments": kinds, "line_faults": plan["faults"],
                     "stream": plan["stream"][:120], "chunk_counts": {k: len(v) for k, v in chunkings.items()},
                     "expected_items": {k: len(v) for k, v in exp.items()}}
    return res


def _short(a, b):
    for i, x in enumerate(a):
        if i >= len(b) or b[i] != x:
            return "...[%d] %s (len %d)" % (i, x, len(a))
    return "len %d" % len(a)


def run_seed(seed, tier):
    return [run_plan(gen_plan(seed, tier))]


def shrink(plan):
    s = bytes.fromhex(plan["stream"])
    n = len(s)
    # drop halves, quarters, then single bytes
    step = n // 2
    while step >= 1:
        for lo in range(0, n, step):
            p = copy.deepcopy(plan)
            p["stream"] = (s[:lo] + s[lo + step:]).hex()
            p["cuts"] = [[c for c in cs if c < n - step] for cs in plan["cuts"]]
            if len(p["stream"]) < len(plan["stream"]):
                yield p
        if step == 1:
            break
        step //= 2
    for i in range(len(plan["cuts"])):
        if plan["cuts"][i]:
            p = copy.deepcopy(plan)
            p["cuts"][i] = []
            yield p
