"""Virtual-time asyncio event loop.

CPython's own BaseEventLoop machinery (ready queue, timer heap, Task, Lock,
Event, wait_for ...) runs unmodified; only the selector and the clock are
replaced.  `select(timeout)` never sleeps: it moves the clock exactly onto the
`when` of the earliest scheduled timer.  World models (gateways, buses, other
masters) schedule their own events on the same heap with `at()`, so there is a
single totally ordered event queue per run and one seed decides everything.

The ready queue is never permuted (asyncio guarantees FIFO for call_soon and
FIFO hand-off for Lock; code may rely on it).
"""
import asyncio
import asyncio.base_events as _be


class SimDeadlock(Exception):
    """Nothing runnable and nothing scheduled: every task waits forever."""


class SimStepCap(Exception):
    """The run needed more loop iterations than the cap: livelock."""


class SimLivelock(BaseException):
    """Code under test spins without ever yielding to the event loop (e.g. a
    retry loop around a failing write).  BaseException so that it passes
    through the `except Exception` / `except OSError` clauses of that code."""


class _FakeSelector:
    def __init__(self, loop):
        self._loop = loop

    def select(self, timeout):
        loop = self._loop
        if timeout is None:
            # no ready callback, no timer: nobody can ever wake up again
            raise SimDeadlock()
        if timeout > 0:
            # jump exactly onto the next timer (no float accumulation)
            loop._vtime = loop._scheduled[0]._when
            loop.jumps += 1
        return ()

    def close(self):
        pass


class VirtualLoop(_be.BaseEventLoop):
    def __init__(self):
        super().__init__()
        self._vtime = 0.0
        self._clock_resolution = 1e-9
        self._selector = _FakeSelector(self)
        self._readers = {}
        self.jumps = 0
        self.max_iterations = 1_000_000
        self.iterations = 0
        self.unhandled = []       # contexts handed to the exception handler
        self.set_exception_handler(self._on_exception)

    # -- clock ----------------------------------------------------------
    def time(self):
        return self._vtime

    # -- plumbing BaseEventLoop expects -----------------------------------
    def _process_events(self, event_list):
        pass

    def _write_to_self(self):
        pass

    def _run_once(self):
        self.iterations += 1
        if self.iterations > self.max_iterations:
            raise SimStepCap()
        super()._run_once()

    # -- fd readers (hidraw fds of the fake os module) --------------------
    def add_reader(self, fd, callback, *args):
        self._readers[fd] = (callback, args)

    def remove_reader(self, fd):
        return self._readers.pop(fd, None) is not None

    def fire_reader(self, fd):
        """Called by a device model when fd became readable."""
        ent = self._readers.get(fd)
        if ent is None:
            return False
        cb, args = ent
        cb(*args)
        return True

    # -- world scheduling -------------------------------------------------
    def at(self, when, callback, *args):
        """Schedule a world event at absolute virtual time `when` (seconds)."""
        if when < self._vtime:
            when = self._vtime
        return self.call_at(when, callback, *args)

    # -- exceptions escaping callbacks --------------------------------------
    def _on_exception(self, loop, context):
        self.unhandled.append(context)

    def shutdown(self):
        """Cancel whatever is left and close; never raises."""
        try:
            tasks = [t for t in asyncio.all_tasks(self) if not t.done()]
            for t in tasks:
                t.cancel()
            if tasks:
                try:
                    self.run_until_complete(
                        asyncio.gather(*tasks, return_exceptions=True))
                except BaseException:
                    pass
        finally:
            try:
                self._ready.clear()
                self._scheduled.clear()
                self.close()
            except BaseException:
                pass
