"""asyncio.wait_for as CPython 3.8-3.11 implemented it (transcribed).

python-dali declares python_requires >= 3.7.  Up to 3.11 wait_for wrapped the
awaited coroutine in a task of its own, so a waiter woke up two loop iterations
later than it does on 3.12, and a cancellation arriving together with the result
was swallowed.  The simulator runs this sandbox's 3.12 asyncio; on a share of the
runs the drivers' modules see this wait_for instead (knob wait_for=py38-311), the
one scheduling difference between the supported interpreters that the drivers
depend on.  Everything else is delegated to the real asyncio module."""
import asyncio as _real
import functools


def _release_waiter(waiter, *args):
    if not waiter.done():
        waiter.set_result(None)


async def _cancel_and_wait(fut, loop):
    waiter = loop.create_future()
    cb = functools.partial(_release_waiter, waiter)
    fut.add_done_callback(cb)
    try:
        fut.cancel()
        await waiter
    finally:
        fut.remove_done_callback(cb)


async def wait_for(fut, timeout):
    loop = _real.get_running_loop()
    if timeout is None:
        return await fut
    if timeout <= 0:
        fut = _real.ensure_future(fut, loop=loop)
        if fut.done():
            return fut.result()
        await _cancel_and_wait(fut, loop=loop)
        try:
            return fut.result()
        except _real.CancelledError as exc:
            raise _real.TimeoutError() from exc
    waiter = loop.create_future()
    timeout_handle = loop.call_later(timeout, _release_waiter, waiter)
    cb = functools.partial(_release_waiter, waiter)
    fut = _real.ensure_future(fut, loop=loop)
    fut.add_done_callback(cb)
    try:
        try:
            await waiter
        except _real.CancelledError:
            if fut.done():
                return fut.result()
            fut.remove_done_callback(cb)
            await _cancel_and_wait(fut, loop=loop)
            raise
        if fut.done():
            return fut.result()
        fut.remove_done_callback(cb)
        await _cancel_and_wait(fut, loop=loop)
        try:
            return fut.result()
        except _real.CancelledError as exc:
            raise _real.TimeoutError() from exc
    finally:
        timeout_handle.cancel()


class LegacyAsyncio:
    """Stands in for the name `asyncio` inside a driver module."""

    def __init__(self):
        self.wait_for = wait_for

    def __getattr__(self, name):
        return getattr(_real, name)
