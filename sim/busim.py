"""busim: the packaged sequences (generator coroutines) stepped against
executable specification models of bus units (IEC 62386-102 gear incl. memory
banks and DT8 Tc, IEC 62386-103 control devices incl. instances and memory).

The models decode raw frame bits with their own small opcode tables
(DESIGN.md appendix A); they never call the library's decoder.  The medium
loses answers (silence), corrupts them (framing error) and collides; units
may misbehave on request of the fault plan; environment actors run between
commands.
"""
import dali.frame
from dali.gear.general import EnableDeviceType
from dali.sequences import progress as seq_progress
from dali.sequences import sleep as seq_sleep

from .core import EventLog

YES = 0xFF
T_FF16, T_FF24, T_GAP, T_BF = 15830, 22500, 14000, 9170

DISABLED, ENABLED, WITHDRAWN = "DISABLED", "ENABLED", "WITHDRAWN"

# memory cell types the models know (names of dali.memory.location.MemoryType)
WRITABLE = {"RAM_RW", "NVM_RW", "NVM_RW_L", "NVM_RW_P"}
LOCKABLE = {"NVM_RW_L"}


class MemBank:
    """One memory bank (102 9.10 / 103 9.10).  cells[i] is None (not
    implemented) or a byte; cells[0] = last accessible location."""

    def __init__(self, number, cells, types=None, has_lock=False, has_latch=False,
                 unlock_value=0x55):
        self.number = number
        self.cells = list(cells) + [None] * (256 - len(cells))
        self.types = types or {}          # addr -> type name
        self.has_lock = has_lock
        self.has_latch = has_latch
        self.unlock_value = unlock_value
        self.snapshot = None
        self.ignore_unlock = False        # fault: stays locked whatever is written
        self.faults = {}                  # write index (count) -> kind
        self.nwrites = 0
        self.write_log = []               # (addr, value, stored)
        self.latch_count = 0

    @property
    def last(self):
        return self.cells[0] if self.cells[0] is not None else 0

    def lock_byte(self):
        return self.cells[2] if self.number != 0 else None

    def readable(self, addr):
        if addr > self.last:
            return None
        src = self.cells
        if self.has_latch and self.number != 0 and self.cells[2] == 0xAA and self.snapshot is not None \
                and addr != 2:
            src = self.snapshot
        return src[addr]

    def cell_type(self, addr):
        if self.number != 0 and addr == 2 and (self.has_lock or self.has_latch):
            return "RAM_RW"
        return self.types.get(addr)

    def write(self, addr, value):
        """Returns True if stored."""
        t = self.cell_type(addr)
        ok = (self.cells[addr] is not None and addr <= self.last and t in WRITABLE)
        if ok and t in LOCKABLE:
            unlocked = (self.cells[2] == self.unlock_value) and not self.ignore_unlock
            ok = unlocked
        if ok:
            self.cells[addr] = value
            if self.number != 0 and addr == 2 and self.has_latch and value == 0xAA:
                self.snapshot = list(self.cells)
                self.latch_count += 1
        self.write_log.append((addr, value, ok))
        return ok


class Unit:
    """Common part of gear and control devices: DTRs, memory, write enable."""
    kind = "unit"

    def __init__(self, short=None, banks=None):
        self.short = short
        self.dtr0 = self.dtr1 = self.dtr2 = 0
        self.banks = {b.number: b for b in (banks or [])}
        self.write_enable = False
        self.freeze_dtr0 = False          # fault: DTR0 does not advance
        self.freeze_after = set()         # fault: DTR0 does not advance after these data writes (by index)
        self.skip_after = set()           # fault: DTR0 advances twice after these data writes (by index)
        self.answer_faults = {}           # memory write count -> "no" | "other" | "garble"
        self.mem_writes = 0
        self.garble_next = False

    def _bump_dtr0(self):
        if not self.freeze_dtr0 and self.dtr0 < 0xFF:
            self.dtr0 += 1

    def mem_read(self):
        b = self.banks.get(self.dtr1)
        if b is None:
            return None
        v = b.readable(self.dtr0)
        self._bump_dtr0()
        return v

    def mem_write(self, value, reply):
        b = self.banks.get(self.dtr1)
        if not self.write_enable or b is None:
            return None
        # unit faults strike data writes (not writes to the lock byte): the
        # unit refuses the write (NO), stores and echoes another byte, or its
        # echo is garbled on the bus - whether or not a reply was asked for
        f = None
        if not (b.number != 0 and self.dtr0 == 2):
            idx = self.mem_writes
            self.mem_writes += 1
            f = self.answer_faults.get(idx)
        stuck = f is None and (self.mem_writes - 1) in self.freeze_after and not (b.number != 0 and self.dtr0 == 2)
        if f == "no":
            self._bump_dtr0()
            return None
        if f == "other":
            value = (value ^ 0x5A) & 0xFF
        stored = b.write(self.dtr0, value)
        if not stuck:
            self._bump_dtr0()
        if f is None and (self.mem_writes - 1) in self.skip_after and not (b.number != 0 and self.dtr0 <= 3):
            self._bump_dtr0()
        if not reply or not stored:
            return None
        if f in ("garble", "garble-same"):
            self.garble_next = f
        return value


# ---------------------------------------------------------------------------
class Gear(Unit):
    kind = "gear"

    def __init__(self, short=None, groups=(), device_types=(), randoms=(), banks=None,
                 name="g"):
        super().__init__(short, banks)
        self.name = name
        self.groups = set(groups)
        self.device_types = sorted(device_types)
        self.dt_cursor = None
        self.dt_query_seq = False
        self.enabled_dt = None
        self.init = DISABLED
        self.random = 0xFFFFFF
        self.search = 0xFFFFFF
        self.randoms = list(randoms)
        self.nrandom = 0
        self.pending_twice = None
        self.level = 254
        # misbehaviour switches
        self.no_store = False             # does not store a programmed short address
        self.no_verify = False            # stores but does not answer VERIFY
        self.answer_script = None         # adversarial answers for device type queries
        # DT8 Tc
        self.tc_temp = None
        self.tc = 0xFFFF
        self.tc_limits = {}
        self.colour_values = {}           # selector -> 16 bit value
        self.dt8_log = []
        self.programmed = []              # (short, random) history of PROGRAM SHORT ADDRESS

    # -- addressing ---------------------------------------------------------
    def _addressed(self, ab):
        if (ab >> 7) == 0:
            return self.short is not None and ((ab >> 1) & 0x3F) == self.short
        if (ab >> 5) == 0b100:
            return ((ab >> 1) & 0x0F) in self.groups
        if (ab | 1) == 0xFF:
            return True
        if (ab | 1) == 0xFD:
            return self.short is None
        return False

    @staticmethod
    def _is_address_byte(ab):
        return (ab >> 7) == 0 or (ab >> 5) == 0b100 or (ab | 1) in (0xFF, 0xFD)

    def _twice(self, value, t_us):
        """True when this is the accepted second copy of a send-twice frame."""
        p = self.pending_twice
        if p is not None and p[0] == value and t_us - p[1] <= 100_000:
            self.pending_twice = None
            return True
        self.pending_twice = (value, t_us)
        return False

    def receive(self, bits, value, t_us):
        if bits != 16:
            self.pending_twice = None
            self.enabled_dt = None
            self.write_enable = False
            return None
        ab, data = value >> 8, value & 0xFF
        dt = self.enabled_dt
        keep_dt = False
        was_pending = self.pending_twice
        if was_pending is not None and was_pending[0] != value:
            self.pending_twice = None
        ans = None
        special = (not self._is_address_byte(ab)) and (ab & 1)
        keeps_we = False
        keeps_dtq = False
        if special:
            if ab == 0xA1:                       # TERMINATE
                self.init = DISABLED
            elif ab == 0xA3:
                self.dtr0 = data
                keeps_we = True
            elif ab == 0xC3:
                self.dtr1 = data
                keeps_we = True
            elif ab == 0xC5:
                self.dtr2 = data
                keeps_we = True
            elif ab == 0xA5:                     # INITIALISE (twice)
                if self._twice(value, t_us):
                    if data == 0x00 or (data == 0xFF and self.short is None) or \
                            ((data & 0x81) == 0x01 and self.short == (data >> 1) & 0x3F):
                        self.init = ENABLED
            elif ab == 0xA7:                     # RANDOMISE (twice)
                if self._twice(value, t_us):
                    if self.init != DISABLED:
                        self.random = self._draw()
            elif ab == 0xA9:                     # COMPARE
                if self.init == ENABLED and self.random <= self.search:
                    ans = YES
            elif ab == 0xAB:                     # WITHDRAW
                if self.init == ENABLED and self.random == self.search:
                    self.init = WITHDRAWN
            elif ab == 0xB1:
                self.search = (self.search & 0x00FFFF) | (data << 16)
            elif ab == 0xB3:
                self.search = (self.search & 0xFF00FF) | (data << 8)
            elif ab == 0xB5:
                self.search = (self.search & 0xFFFF00) | data
            elif ab == 0xB7:                     # PROGRAM SHORT ADDRESS
                if self.init != DISABLED and self.random == self.search:
                    if data == 0xFF:
                        if not self.no_store:
                            self.short = None
                    elif (data & 0x81) == 0x01:
                        if not self.no_store:
                            self.short = (data >> 1) & 0x3F
                            self.programmed.append((self.short, self.random))
            elif ab == 0xB9:                     # VERIFY SHORT ADDRESS
                if self.init != DISABLED and (data & 0x81) == 0x01 and \
                        self.short == (data >> 1) & 0x3F and not self.no_verify:
                    ans = YES
            elif ab == 0xBB:                     # QUERY SHORT ADDRESS
                if self.init != DISABLED and self.random == self.search:
                    ans = 0xFF if self.short is None else (self.short << 1) | 1
            elif ab == 0xC1:                     # ENABLE DEVICE TYPE
                self.enabled_dt = data
                keep_dt = True
            elif ab == 0xC7:                     # WRITE MEMORY LOCATION
                keeps_we = True
                ans = self.mem_write(data, True)
            elif ab == 0xC9:                     # WRITE MEMORY LOCATION - NO REPLY
                keeps_we = True
                self.mem_write(data, False)
        elif ab & 1:
            if self._addressed(ab):
                ans, keeps_we, keep_dt, keeps_dtq = self._command(data, value, t_us, dt)
            else:
                # a command for somebody else still ends a device type query run
                pass
        else:
            pass                                  # direct arc power
        if not keeps_we:
            self.write_enable = False
        if not keep_dt:
            self.enabled_dt = None
        self.dt_query_seq = bool(keeps_dtq)
        return ans

    def _draw(self):
        if self.nrandom < len(self.randoms):
            v = self.randoms[self.nrandom]
        elif self.randoms:
            v = (self.randoms[-1] * 1103515245 + 12345 + self.nrandom * 7919) & 0xFFFFFF
        else:
            v = 0x123456
        self.nrandom += 1
        return v & 0xFFFFFF

    def _command(self, op, value, t_us, dt):
        """-> (answer, keeps write enable, keeps enabled dt, keeps dt query run)"""
        if dt is not None and op >= 0xE0:
            return self._extended(op, value, t_us, dt)
        if 0x60 <= op <= 0x6F:                   # ADD TO GROUP (twice)
            if self._twice(value, t_us):
                self.groups.add(op & 0x0F)
            return None, False, False, False
        if 0x70 <= op <= 0x7F:
            if self._twice(value, t_us):
                self.groups.discard(op & 0x0F)
            return None, False, False, False
        if op == 0x80:                            # SET SHORT ADDRESS (DTR0)
            if self._twice(value, t_us):
                if self.dtr0 == 0xFF:
                    self.short = None
                elif (self.dtr0 & 0x81) == 0x01:
                    self.short = (self.dtr0 >> 1) & 0x3F
            return None, False, False, False
        if op == 0x81:                            # ENABLE WRITE MEMORY
            if self._twice(value, t_us):
                self.write_enable = True
                return None, True, False, False
            return None, self.write_enable, False, False
        if op == 0x91:
            return YES, False, False, False
        if op == 0x96:
            return (YES if self.short is None else None), False, False, False
        if op == 0x98:
            return self.dtr0, True, False, False
        if op == 0x9C:
            return self.dtr1, True, False, False
        if op == 0x9D:
            return self.dtr2, True, False, False
        if op == 0x99:                            # QUERY DEVICE TYPE
            if self.answer_script is not None:
                return self._scripted(), False, False, True
            if not self.device_types:
                return 254, False, False, False
            if len(self.device_types) == 1:
                return self.device_types[0], False, False, False
            self.dt_cursor = 0
            return 255, False, False, True
        if op == 0xA7:                            # QUERY NEXT DEVICE TYPE
            if self.answer_script is not None:
                return self._scripted(), False, False, True
            if not self.dt_query_seq or self.dt_cursor is None:
                return None, False, False, False
            if self.dt_cursor < len(self.device_types):
                v = self.device_types[self.dt_cursor]
                self.dt_cursor += 1
                return v, False, False, True
            self.dt_cursor = None
            return 254, False, False, False
        if op == 0xA0:
            return self.level, False, False, False
        if op == 0xC0:
            return sum(1 << g for g in self.groups if g < 8), False, False, False
        if op == 0xC1:
            return sum(1 << (g - 8) for g in self.groups if g >= 8), False, False, False
        if op == 0xC5:                            # READ MEMORY LOCATION
            return self.mem_read(), False, False, False
        return None, False, False, False

    def _scripted(self):
        s = self.answer_script
        v = s["answers"][s["pos"] % len(s["answers"])] if s["pos"] >= len(s["answers"]) and s.get("cycle", True) \
            else (s["answers"][s["pos"]] if s["pos"] < len(s["answers"]) else None)
        s["pos"] += 1
        if v == "error":
            self.garble_next = True
            return 0
        return v

    def _extended(self, op, value, t_us, dt):
        if dt != 8:
            return None, False, False, False
        if op == 226:                             # ACTIVATE
            self.dt8_log.append(("activate", self.tc_temp))
            if self.tc_temp is not None:
                self.tc = self.tc_temp
                self.tc_temp = None
            return None, False, False, False
        if op == 231:                             # SET TEMPORARY COLOUR TEMPERATURE Tc
            self.tc_temp = (self.dtr1 << 8) | self.dtr0
            self.dt8_log.append(("set-temp", self.tc_temp))
            return None, False, False, False
        if op == 242:                             # STORE COLOUR TEMPERATURE Tc LIMIT (twice)
            if self._twice(value, t_us):
                self.tc_limits[self.dtr2] = (self.dtr1 << 8) | self.dtr0
                self.dt8_log.append(("limit", self.dtr2, self.tc_limits[self.dtr2]))
                return None, False, False, False
            return None, False, True, False       # dt stays enabled for the repeat
        if op == 250:                             # QUERY COLOUR VALUE
            v = self.colour_values.get(self.dtr0)
            self.dt8_log.append(("query", self.dtr0))
            if v is None:
                return None, False, False, False
            self.dtr0 = v & 0xFF
            return v >> 8, False, False, False
        return None, False, False, False


# ---------------------------------------------------------------------------
class Instance:
    def __init__(self, itype=1, enabled=True, scheme=0, filt=0, resolution=8, value=0):
        self.itype = itype
        self.enabled = enabled
        self.scheme = scheme
        self.filter = filt
        self.resolution = resolution
        self.value = value            # resolution-bit number
        self.latched = None
        self.latch_pos = 0
        self.filter_impl = 0xFFFFFF   # the event filter bits this instance implements (others read back 0)

    def filter_width(self):
        # stored width by instance type: push buttons 8 bit, harness-defined
        # types 16 / 24 bit (see checks/c13)
        return {1: 8, 2: 8, 3: 8, 4: 8, 20: 16, 21: 24}.get(self.itype, 24)

    def aligned_bytes(self):
        """MSB-aligned input value; unused low bits repeat the MSBs."""
        res = self.resolution
        nbytes = (res + 7) // 8
        total = nbytes * 8
        v = self.value & ((1 << res) - 1)
        out = v << (total - res)
        fill = total - res
        # repeat the pattern from the top
        pos = fill
        while pos > 0:
            take = min(res, pos)
            out |= (v >> (res - take)) << (pos - take)
            pos -= take
        return list(out.to_bytes(nbytes, "big"))


class Device(Unit):
    """IEC 62386-103 control device."""
    kind = "device"

    def __init__(self, short=None, groups=(), instances=(), status=0, banks=None, name="d"):
        super().__init__(short, banks)
        self.name = name
        self.groups = set(groups)
        self.instances = list(instances)
        self.status = status          # bit0 input device error, 1 quiescent, 2 short addr mask,
        #                               3 app ctrl active, 4 app ctrl error, 5 power cycle seen, 6 reset state
        self.quiescent = False
        self.pending_twice = None
        self.quiescent_log = []
        self.silent = False           # fault: does not answer at all

    def _addressed(self, ab):
        if (ab >> 7) == 0:
            return self.short is not None and ((ab >> 1) & 0x3F) == self.short
        if (ab >> 6) == 0b10:
            return ((ab >> 1) & 0x1F) in self.groups
        if (ab | 1) == 0xFF:
            return True
        if (ab | 1) == 0xFD:
            return self.short is None
        return False

    def _twice(self, value, t_us):
        p = self.pending_twice
        if p is not None and p[0] == value and t_us - p[1] <= 100_000:
            self.pending_twice = None
            return True
        self.pending_twice = (value, t_us)
        return False

    def status_byte(self):
        s = self.status
        if self.quiescent:
            s |= 0x02
        return s & 0xFF

    def receive(self, bits, value, t_us):
        if bits != 24:
            self.pending_twice = None
            self.write_enable = False
            return None
        ab, ib, op = value >> 16, (value >> 8) & 0xFF, value & 0xFF
        if self.pending_twice is not None and self.pending_twice[0] != value:
            self.pending_twice = None
        keeps_we = False
        ans = None
        if not (ab & 1):
            # event messages (bit 16 clear): not for us
            self.write_enable = False
            return None
        if ab == 0xC1:                            # special commands
            if ib == 0x30:
                self.dtr0 = op
                keeps_we = True
            elif ib == 0x31:
                self.dtr1 = op
                keeps_we = True
            elif ib == 0x32:
                self.dtr2 = op
                keeps_we = True
            elif ib == 0x20:
                keeps_we = True
                ans = self.mem_write(op, True)
            elif ib == 0x21:
                keeps_we = True
                self.mem_write(op, False)
        elif ab == 0xC7:                          # DTR1:DTR0
            self.dtr1, self.dtr0 = ib, op
            keeps_we = True
        elif ab == 0xC9:                          # DTR2:DTR1
            self.dtr2, self.dtr1 = ib, op
            keeps_we = True
        elif self._addressed(ab) and not self.silent:
            if ib == 0xFE:
                ans, keeps_we = self._device_command(op, value, t_us)
            elif (ib >> 5) == 0 and ib < 32:
                ans = self._instance_command(ib, op, value, t_us)
        if not keeps_we:
            self.write_enable = False
        return ans

    def _device_command(self, op, value, t_us):
        if op == 0x1D:                            # START QUIESCENT MODE (twice)
            if self._twice(value, t_us):
                self.quiescent = True
                self.quiescent_log.append(("start", t_us))
            return None, False
        if op == 0x1E:
            if self._twice(value, t_us):
                self.quiescent = False
                self.quiescent_log.append(("stop", t_us))
            return None, False
        if op == 0x15:                            # ENABLE WRITE MEMORY (twice)
            if self._twice(value, t_us):
                self.write_enable = True
                return None, True
            return None, self.write_enable
        if op == 0x30:
            return self.status_byte(), False
        if op == 0x35:
            return len(self.instances), False
        if op == 0x36:
            return self.dtr0, True
        if op == 0x37:
            return self.dtr1, True
        if op == 0x38:
            return self.dtr2, True
        if op == 0x3C:
            return self.mem_read(), False
        return None, False

    def _instance_command(self, n, op, value, t_us):
        if n >= len(self.instances):
            return None
        i = self.instances[n]
        if op == 0x67:                            # SET EVENT SCHEME (twice)
            if self._twice(value, t_us):
                if 0 <= self.dtr0 <= 4:
                    i.scheme = self.dtr0
            return None
        if op == 0x68:                            # SET EVENT FILTER (twice)
            if self._twice(value, t_us):
                w = i.filter_width()
                i.filter = ((self.dtr2 << 16) | (self.dtr1 << 8) | self.dtr0) & ((1 << w) - 1) & i.filter_impl
            return None
        if op == 0x80:
            return i.itype
        if op == 0x81:
            return i.resolution
        if op == 0x86:
            return YES if i.enabled else None
        if op == 0x8B:
            return i.scheme
        if op == 0x8C:                            # QUERY INPUT VALUE: latch
            i.latched = i.aligned_bytes()
            i.latch_pos = 1
            return i.latched[0]
        if op == 0x8D:                            # QUERY INPUT VALUE LATCH
            if i.latched is None or i.latch_pos >= len(i.latched):
                return None
            v = i.latched[i.latch_pos]
            i.latch_pos += 1
            return v
        if op == 0x90:
            return i.filter & 0xFF
        if op == 0x91:
            return (i.filter >> 8) & 0xFF if i.filter_width() > 8 else None
        if op == 0x92:
            return (i.filter >> 16) & 0xFF if i.filter_width() > 16 else None
        return None


# ---------------------------------------------------------------------------
class Bus:
    def __init__(self, units):
        self.units = list(units)
        self.t_us = 0
        self.frames = []          # (t_us, bits, value, outcome)

    def transmit(self, bits, value):
        self.t_us += T_GAP + (T_FF24 if bits == 24 else T_FF16)
        answers = []
        garbled = False
        for u in self.units:
            a = u.receive(bits, value, self.t_us)
            if getattr(u, "garble_next", False):
                garbled = u.garble_next
                u.garble_next = False
            if a is not None:
                answers.append(a)
        if not answers:
            out = ("silent",)
        elif len(answers) == 1 and not garbled:
            out = ("value", answers[0])
            self.t_us += 7000 + T_BF
        elif len(answers) == 1 and garbled == "garble-same":
            out = ("error", answers[0])                       # framing error, bits intact by bad luck
            self.t_us += 7000 + T_BF
        else:
            out = ("error", (sum(answers) + 0x3C) & 0xFF)     # collision: garbage bits
            self.t_us += 7000 + T_BF
        self.frames.append((self.t_us, bits, value, out))
        return out


class UnitBus:
    """Adapter used by the gateway models of drvsim ('stacked' transport): the
    frames a real driver sends through a gateway model reach the unit models.
    A send-twice command is delivered as two identical frames within 100 ms."""

    def __init__(self, world, units):
        self.world = world
        self.units = list(units)
        self.outcomes = {}
        self.transmissions = []
        self.frames = []

    def _deliver(self, bits, value, t_us):
        answers = []
        garbled = False
        for u in self.units:
            a = u.receive(bits, value, t_us)
            if getattr(u, "garble_next", False):
                u.garble_next = False
                garbled = True
            if a is not None:
                answers.append(a)
        if not answers:
            out = ("silent",)
        elif len(answers) == 1 and not garbled:
            out = ("value", answers[0])
        else:
            out = ("error", (sum(answers) + 0x3C) & 0xFF)
        self.frames.append((t_us, bits, value, out))
        return out

    def transmit(self, bits, value, twice, end_us, unit, src):
        if twice:
            self._deliver(bits, value, end_us - 40_000)
        out = self._deliver(bits, value, end_us)
        self.transmissions.append((end_us, src, unit, bits, value, twice, out))
        self.world.log.add(end_us * 1e-6, "bus", src, (bits, value, twice, out))
        return out


class SeqRun:
    """Result of stepping one sequence."""

    def __init__(self):
        self.status = None        # "return" | "raise" | "cap"
        self.value = None
        self.exc = None
        self.commands = []        # (index, cmd, outcome given to the sequence, faulted)
        self.progress = 0
        self.slept_us = 0
        self.steps = 0


class Stepper:
    """A second sequence alive at the same time as the one under judgement (another
    DALI line, another driver object in the same process): advanced a few commands
    at a time from the main sequence's env hook, fault-free, on a bus of its own."""

    def __init__(self, gen, bus, cap=5000):
        self.gen, self.bus, self.cap = gen, bus, cap
        self.resp = None
        self.done = False
        self.n = 0
        self.status = self.value = self.exc = None

    def step(self, k=1):
        for _ in range(k):
            if self.done:
                return
            while True:
                try:
                    cmd = self.gen.send(self.resp)
                except StopIteration as e:
                    self.done, self.status, self.value = True, "return", e.value
                    return
                except Exception as e:          # noqa: BLE001
                    self.done, self.status, self.exc = True, "raise", e
                    return
                self.resp = None
                if not isinstance(cmd, (seq_sleep, seq_progress)):
                    break
            f = cmd.frame
            if cmd.devicetype != 0:
                self.bus.transmit(16, EnableDeviceType(cmd.devicetype).frame.as_integer)
            out = self.bus.transmit(len(f), f.as_integer)
            if cmd.sendtwice:
                out = self.bus.transmit(len(f), f.as_integer)
            if cmd.response is not None:
                if out[0] == "silent":
                    self.resp = cmd.response(None)
                elif out[0] == "value":
                    self.resp = cmd.response(dali.frame.BackwardFrame(out[1]))
                else:
                    self.resp = cmd.response(dali.frame.BackwardFrameError(out[1]))
            self.n += 1
            if self.n >= self.cap:
                self.done, self.status = True, "cap"
                self.gen.close()

    def finish(self):
        while not self.done:
            self.step(64)


def run_sequence(gen, bus, answer_faults=None, cap=5000, env=None, log=None):
    """Step the real generator against the bus.  answer_faults maps the index
    of a yielded *command* to "drop" | "garble": what the sequence is told
    then differs from what the unit did (the medium lost/garbled the answer).
    env(i, cmd, bus) runs before command i is transmitted (other masters,
    ticking counters, changing sensors)."""
    answer_faults = answer_faults or {}
    log = log if log is not None else EventLog()
    res = SeqRun()
    resp = None
    i = 0
    try:
        while True:
            try:
                cmd = gen.send(resp)
            except StopIteration as e:
                res.status, res.value = "return", e.value
                return res
            except Exception as e:          # noqa: BLE001 - outcome of the sequence
                res.status, res.exc = "raise", e
                return res
            resp = None
            if isinstance(cmd, seq_sleep):
                bus.t_us += int(cmd.delay * 1e6)
                res.slept_us += int(cmd.delay * 1e6)
                continue
            if isinstance(cmd, seq_progress):
                res.progress += 1
                continue
            if i >= cap:
                res.status = "cap"
                return res
            if env is not None:
                env(i, cmd, bus)
            f = cmd.frame
            bits, value = len(f), f.as_integer
            if cmd.devicetype != 0:
                bus.transmit(16, EnableDeviceType(cmd.devicetype).frame.as_integer)
            out = bus.transmit(bits, value)
            if cmd.sendtwice:
                out = bus.transmit(bits, value)
            fault = answer_faults.get(i)
            told = out
            if fault == "drop" and out[0] != "silent":
                told = ("silent",)
            elif fault in ("garble", "garble-same") and out[0] != "silent":
                # a frame received with a framing error need not carry the
                # sender's bits: whoever trusts them gets garbage ("garble") -
                # or, by bad luck, exactly the right bits ("garble-same": two
                # units sending the same byte, a timing violation)
                told = ("error", out[1] if (fault == "garble-same" and out[0] == "value") else (out[1] ^ 0x5B) & 0xFF)
                fault = "garble"
            elif fault in ("garble", "garble-same") and out[0] == "silent":
                # noise on the bus where nobody answered: a framing error
                told = ("error", 0)
                fault = "garble"
            elif fault == "drop":
                fault = None
            log.add(bus.t_us * 1e-6, "cmd", "seq", (bits, value, told))
            res.commands.append((i, cmd, out, told, fault))
            if cmd.response is not None:
                if told[0] == "silent":
                    resp = cmd.response(None)
                elif told[0] == "value":
                    resp = cmd.response(dali.frame.BackwardFrame(told[1]))
                else:
                    resp = cmd.response(dali.frame.BackwardFrameError(told[1]))
            i += 1
            res.steps = i
    finally:
        gen.close()
