"""Command specs.  A spec is the JSON-able triple [bits, value, devicetype];
the command object is obtained with the library's own decoder (decoder
correctness is C01/C02 territory and is not judged by the simulation checks -
every oracle that needs a command's flags reads them off the same object the
driver is given).
"""
import dali.command
import dali.frame
import dali.gear  # noqa: F401  (registers gear commands)
import dali.gear.general
import dali.gear.colour  # noqa: F401
import dali.gear.emergency  # noqa: F401
import dali.gear.led  # noqa: F401
import dali.gear.incandescent  # noqa: F401
import dali.gear.converter  # noqa: F401
import dali.device  # noqa: F401
import dali.device.general  # noqa: F401
import dali.device.pushbutton  # noqa: F401
import dali.device.occupancy  # noqa: F401
import dali.device.light  # noqa: F401
from dali.gear.general import EnableDeviceType

_cache = {}


def decode(f, devicetype=0, dev_inst_map=None):
    """from_frame() of the library; a frame it refuses to decode (it should not:
    every frame is some command, if only an unknown one) becomes a bare Command so
    that the harness can still put the frame on the bus and see what the code
    under test makes of it."""
    try:
        return dali.command.from_frame(f, devicetype=devicetype, dev_inst_map=dev_inst_map)
    except Exception:                               # noqa: BLE001
        c = dali.command.Command(f)
        c._undecodable = True
        return c


def mk_cmd(spec, dev_inst_map=None):
    bits, value, dt = spec
    return decode(dali.frame.ForwardFrame(bits, value), dt, dev_inst_map)


def spec_of(cmd):
    return [len(cmd.frame), cmd.frame.as_integer, cmd.devicetype]


def edt_frame(dt):
    return EnableDeviceType(dt).frame.as_integer


def category(cmd):
    bits = len(cmd.frame)
    if cmd.response is not None:
        k = "query"
    elif cmd.sendtwice:
        k = "twice"
    else:
        k = "plain"
    if bits == 16 and cmd.devicetype != 0:
        return "dt_" + k
    return "%s%d" % (k, bits)


def _known(cmd):
    n = type(cmd).__name__
    return not n.startswith("Unknown") and type(cmd) is not dali.command.Command


def _build():
    cat = {}

    def add(kind, bits, base, dt):
        c = mk_cmd([bits, base, dt])
        if not _known(c):
            return
        if isinstance(c, EnableDeviceType):
            return      # drivers emit it themselves; never a workload command
        cat.setdefault(category(c), []).append((kind, bits, base, dt))

    dts = [0] + sorted(dali.command.Command._supported_devicetypes)
    for dt in dts:
        for op in range(256):
            if dt == 0 or op >= 0xE0:
                add("std16", 16, (0x01 << 8) | op, dt)
    for ab in range(0xA1, 0xFC, 2):
        add("special16", 16, ab << 8, 0)
    add("dapc", 16, 0x0000, 0)
    for op in range(256):
        add("dev24", 24, (0x01 << 16) | (0xFE << 8) | op, 0)
        add("inst24", 24, (0x01 << 16) | (0x00 << 8) | op, 0)
        add("special24", 24, (0xC1 << 16) | (op << 8), 0)
    return cat, dts


CATALOG, DEVICETYPES = _build()
CATEGORIES = sorted(CATALOG)

_ADDR16 = ([((a << 1) | 1) for a in range(64)] +
           [0x81 | (g << 1) for g in range(16)] + [0xFF, 0xFD])
_ADDR24 = ([((a << 1) | 1) for a in range(64)] +
           [0x81 | (g << 1) for g in range(32)] + [0xFF, 0xFD])


def gen_cmd(rng, cats=None):
    """Return a spec drawn from the given categories (all when None)."""
    cats = [c for c in (cats or CATEGORIES) if c in CATALOG] or CATEGORIES
    for _ in range(20):
        spec = _gen_once(rng, cats)
        if category(mk_cmd(spec)) in cats:
            return spec
    return spec


def _gen_once(rng, cats):
    c = rng.choice(cats)
    kind, bits, base, dt = rng.choice(CATALOG[c])
    if kind == "std16":
        v = (rng.choice(_ADDR16) << 8) | (base & 0xFF)
    elif kind == "special16":
        v = (base & 0xFF00) | rng.randrange(256)
    elif kind == "dapc":
        v = ((rng.choice(_ADDR16) & 0xFE) << 8) | rng.randrange(256)
    elif kind == "dev24":
        v = (rng.choice(_ADDR24) << 16) | (base & 0xFFFF)
    elif kind == "inst24":
        v = (rng.choice(_ADDR24) << 16) | (rng.randrange(32) << 8) | (base & 0xFF)
    else:  # special24
        v = (base & 0xFFFF00) | rng.randrange(256)
    spec = [bits, v, dt]
    cmd = mk_cmd(spec)
    if not _known(cmd) or isinstance(cmd, EnableDeviceType):
        spec = [bits, base, dt]
        cmd = mk_cmd(spec)
    # the spec's dt is normalised to what the command itself needs
    return [bits, spec[1], cmd.devicetype]


def expected_wire(specs):
    """Frames (bits, value) a driver must put on the bus for these commands:
    EnableDeviceType immediately before each command that needs one."""
    out = []
    for s in specs:
        c = mk_cmd(s)
        if c.devicetype != 0:
            out.append((16, edt_frame(c.devicetype)))
        out.append((len(c.frame), c.frame.as_integer))
    return out
