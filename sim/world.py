"""The per-run world: loop, seed, log, unit tag, scripted bus."""
import contextvars

from .core import EventLog, keyed_rng
from .loop import SimLivelock, VirtualLoop


class World:
    def __init__(self, seed, max_iterations=400_000):
        self.seed = seed
        self.loop = VirtualLoop()
        self.loop.max_iterations = max_iterations
        self.log = EventLog()
        # which caller unit (one send() or one run_sequence()) is executing;
        # read by the fake write seams to tag every packet on the wire
        self.unit = contextvars.ContextVar("verif_unit", default=None)
        self.probes = {}
        self.faults = {}
        self.states = set()
        self.on_write = None
        self._seam_iter = -1
        self._seam_calls = 0

    def seam_call(self):
        """Called by every fake I/O entry point: a deterministic guard against
        busy loops that never return to the event loop."""
        it = self.loop.iterations
        if it != self._seam_iter:
            self._seam_iter, self._seam_calls = it, 0
        self._seam_calls += 1
        if self._seam_calls > 5000:
            raise SimLivelock()

    def rng(self, *key):
        return keyed_rng(self.seed, *key)

    def probe(self, name, n=1):
        self.probes[name] = self.probes.get(name, 0) + n

    def fault(self, name, n=1):
        self.faults[name] = self.faults.get(name, 0) + n

    def now_us(self):
        return int(round(self.loop.time() * 1e6))


class ScriptedBus:
    """Outcome of each transmission is given by the plan: per caller unit a
    map "bits:value" -> outcome, default silent.  Outcomes:
    ["silent"] | ["value", v] | ["error", v]"""

    def __init__(self, world, outcomes):
        self.world = world
        self.outcomes = outcomes      # {unit: {"bits:value": outcome}}
        self.transmissions = []

    def transmit(self, bits, value, twice, end_us, unit, src):
        o = self.outcomes.get(str(unit), {}).get("%d:%d" % (bits, value))
        out = tuple(o) if o else ("silent",)
        self.transmissions.append((end_us, src, unit, bits, value, twice, out))
        self.world.log.add(end_us * 1e-6, "bus", src, (bits, value, twice, out))
        return out
