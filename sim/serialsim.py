"""Fake `serial_asyncio` seam for dali.driver.serial plus models of the
Lunatone LUBA RS232 and SCI RS232 gateways.

LUBA: frames 'Y' cmd len payload xor(cmd..payload).  Written from the protocol
notes quoted in the driver (command codes, settings bits, event layout).
SCI: fixed 5-byte frames [status/control, d2, d1, d0, xor].
"""
from functools import reduce
from operator import xor

from .hidsim import (US, BusLine, ff_dur, T_BF, T_NO_ANSWER,  # noqa: F401
                     SETTLE_FF_BF_MIN, SETTLE_FF_BF_MAX, SETTLE_FF_FF_MIN)

BYTE_US = 260          # one byte at 38400 baud 8N1


class FakeTransport:
    def __init__(self, loop, protocol, device):
        self.loop = loop
        self.protocol = protocol
        self.device = device
        self.closed = False

    def write(self, data):
        self.device.host_write(bytes(data))

    def close(self):
        self.closed = True

    def __repr__(self):
        return "<FakeTransport>"


class FakeSerialAsyncio:
    """Replaces the serial_asyncio module object inside dali.driver.serial."""
    SerialTransport = FakeTransport

    def __init__(self, world, device):
        self.world = world
        self.device = device
        self.second = None            # another serial gateway (url ending in "B") in the same process
        self.connections = 0

    async def create_serial_connection(self, loop=None, protocol_factory=None,
                                       url=None, **kw):
        proto = protocol_factory()
        dev = self.second if (getattr(self, "second", None) is not None and str(url).endswith("B")) else self.device
        tr = FakeTransport(self.world.loop, proto, dev)
        dev.attach(proto, tr)
        self.connections += 1
        self.world.loop.call_soon(proto.connection_made, tr)
        return tr, proto


class SerialDevice:
    """Byte pipe to the protocol object with plan-controlled chunking."""
    name = "serial"

    def __init__(self, world, chunking="whole"):
        self.world = world
        self.loop = world.loop
        self.protocol = None
        self.transport = None
        self.chunking = chunking
        self._last_deliver = 0.0
        self.nchunks = 0
        self.rx_exceptions = []       # exceptions escaping data_received
        self.writes = []              # (seq#, t_us, unit, bytes)
        self.hostbuf = bytearray()
        self._batches = {}
        self._batch_last = 0
        self.observed = []            # (arrival us, bits, value) of foreign forward frames
        self.answer_arrivals = {}     # backward-frame value -> arrival time at the host (us)
        self.mute = False             # gateway stopped talking (fault)

    def attach(self, proto, tr):
        self.protocol = proto
        self.transport = tr

    def host_write(self, data):
        self.world.seam_call()
        unit = self.world.unit.get()
        seqno = self.world.log.add(self.loop.time(), "write", self.name,
                                   (unit, data.hex()))
        self.writes.append((seqno, self.world.now_us(), unit, data))
        if self.world.on_write:
            self.world.on_write()
        self.on_host_bytes(data, unit)

    BATCH_US = 16000       # USB-serial latency timer: reads are handed over in batches

    def send_bytes(self, data, at_us, key):
        """Deliver `data` to the host, last byte arriving at at_us.  Returns the
        actual arrival time of the last byte (us)."""
        if self.mute:
            return
        data = bytes(data)
        if self.chunking == "batch":
            # everything that arrives within one latency-timer period is handed
            # to data_received() in a single call, in order
            at_us = max(int(at_us), self.world.now_us())
            flush = max((at_us // self.BATCH_US + 1) * self.BATCH_US, self._batch_last)
            self._batch_last = flush
            b = self._batches.get(flush)
            if b is None:
                b = self._batches[flush] = bytearray()
                self._last_deliver = max(self._last_deliver, flush * US)
                self.loop.at(flush * US, self._flush_batch, flush)
            b += data
            return flush
        r = self.world.rng("chunk", self.name, key)
        if self.chunking == "whole":
            cuts = [len(data)]
        elif self.chunking == "bytes":
            cuts = list(range(1, len(data) + 1))
        else:
            n = len(data)
            k = r.randrange(0, min(4, n))
            cuts = sorted(set(r.sample(range(1, n), k))) + [n] if n > 1 else [n]
        prev = 0
        t_act = None
        for c in cuts:
            t = at_us - (len(data) - c) * BYTE_US
            t_act = self._deliver(data[prev:c], t)
            prev = c
        return t_act          # actual arrival of the last byte (us)

    def _flush_batch(self, flush):
        data = self._batches.pop(flush, None)
        if data:
            self.world.probe("serial-batch-of-%d-messages" % min(3, max(1, len(data) // 5 if self.name == "sci" else data.count(0x59))))
            self._arrive(bytes(data))

    def _deliver(self, chunk, at_us):
        t = max(at_us * US, self._last_deliver + US, self.loop.time())
        self._last_deliver = t
        self.loop.at(t, self._arrive, chunk)
        return int(round(t * 1e6))

    def _arrive(self, chunk):
        if self.protocol is None:
            return
        self.nchunks += 1
        self.world.log.add(self.loop.time(), "rx", self.name, chunk.hex())
        try:
            self.protocol.data_received(chunk)
        except Exception as e:            # noqa: BLE001 - judged by the oracle
            self.rx_exceptions.append((self.world.now_us(), chunk, repr(e)))
            self.world.log.add(self.loop.time(), "rx-exception", self.name,
                               type(e).__name__)


def _classify(self, rec, conf_actual, answer_actual, timeout_us):
    """Late / in time is decided from the times at which the host really got the
    confirmation and the answer (batching and in-order delivery move them); in
    between 80 % and 120 % of the documented timeout nothing is judged."""
    if answer_actual is None or conf_actual is None:
        return
    d = answer_actual - conf_actual
    rec["answer_arrival_us"] = answer_actual
    if d <= 0.8 * timeout_us:
        rec["late"] = False
    elif d >= 1.2 * timeout_us:
        if not rec.get("late"):
            self.late_answers += 1
        rec["late"] = True
    else:
        rec["ambiguous"] = True


SerialDevice._classify = _classify


def luba_frame(cmd, payload):
    body = [cmd, len(payload)] + list(payload)
    return bytes([0x59] + body + [reduce(xor, body)])


class LubaGW(SerialDevice):
    name = "luba"

    def __init__(self, world, bus, line, latency, chunking="whole",
                 accept_msg=False, answer_mode="intime"):
        super().__init__(world, chunking)
        self.bus = bus
        self.line = line
        self.lat = latency
        self.accept_msg = accept_msg
        self.answer_mode = answer_mode     # intime | late | mixed
        self.sends = []
        self.referee_errors = []
        self.settings = None
        self.tx_id = 0
        self.tick = 0
        self.nmsg = 0
        self.truncate_confirm = {}    # send idx -> number of bytes of the confirmation that still arrive
        self.silent_confirm = set()   # send indices whose confirmations are lost
        self.silent_answer = set()    # send indices whose answer event is lost
        self.late_confirm = {}        # send idx -> extra us
        self.late_answers = 0

    # ---- host -> gateway ---------------------------------------------------
    def on_host_bytes(self, data, unit):
        self.hostbuf += data
        while self.hostbuf:
            if self.hostbuf[0] != 0x59:
                self.referee_errors.append(("no-start-byte", bytes(self.hostbuf[:1]).hex()))
                del self.hostbuf[0]
                continue
            if len(self.hostbuf) < 3:
                return
            ln = self.hostbuf[2]
            if len(self.hostbuf) < ln + 4:
                return
            fr = bytes(self.hostbuf[:ln + 4])
            del self.hostbuf[:ln + 4]
            if reduce(xor, fr[1:-1]) != fr[-1]:
                self.referee_errors.append(("checksum", fr.hex()))
                continue
            self.on_frame(fr[1], fr[3:-1], unit, fr)

    def event(self, etype, info, tail, at_us, key, truncate=None):
        self.tick = (self.tick + 1) & 0xFFFF
        payload = [self.tick >> 8, self.tick & 0xFF, 0,
                   ((etype & 3) << 6) | (info & 0x3F)] + list(tail)
        self.nmsg += 1
        frame = luba_frame(0x31, payload)
        if truncate:
            frame = frame[:truncate]        # the gateway falls silent in the middle of its message
        return self.send_bytes(frame, at_us, (key, self.nmsg))

    def on_frame(self, cmd, payload, unit, raw):
        now = self.world.now_us()
        if cmd == 0x20:
            if list(payload) != [0]:
                self.referee_errors.append(("devinfo-query", raw.hex()))
            info = (list((4251234567890).to_bytes(6, "big")) +
                    list((0x0102030405060708).to_bytes(8, "big")) +
                    [3, 1] + list((24166096).to_bytes(4, "big")))
            self.nmsg += 1
            self.send_bytes(luba_frame(0x21, info),
                            now + 2000 + self.lat.draw(self.name, self.nmsg),
                            ("info", self.nmsg))
            return
        if cmd == 0x2A:
            if len(payload) != 3:
                self.referee_errors.append(("settings-length", raw.hex()))
                return
            self.settings = tuple(payload)
            self.nmsg += 1
            self.send_bytes(luba_frame(0x2B, list(payload)),
                            now + 2000 + self.lat.draw(self.name, self.nmsg),
                            ("settings", self.nmsg))
            return
        if cmd != 0x32:
            self.referee_errors.append(("unknown-command", raw.hex()))
            return
        rec = {"unit": unit, "raw": raw, "t_us": now, "idx": len(self.sends)}
        self.sends.append(rec)
        if len(payload) != 7:
            self.referee_errors.append(("tx-length", raw.hex()))
            return
        line_sel, bits, mode = payload[0], payload[1], payload[2]
        data = payload[3:7]
        if line_sel != 0:
            self.referee_errors.append(("bus-selector", raw.hex()))
        if bits not in (16, 24):
            self.referee_errors.append(("bits", raw.hex()))
            return
        nbytes = bits // 8
        value = int.from_bytes(bytes(data[:nbytes]), "big")
        if any(data[nbytes:]):
            self.referee_errors.append(("data-padding", raw.hex()))
        twice = bool(mode & 0x80)
        prio = mode & 0x07
        if mode & 0x78:
            self.referee_errors.append(("mode-reserved-bits", raw.hex()))
        rec.update(bits=bits, value=value, twice=twice, prio=prio, mode=mode)
        self.tx_id = (self.tx_id + 1) & 0xFF
        tx_id = self.tx_id
        idx = rec["idx"]
        r = self.world.rng("luba-timing", idx)
        if self.accept_msg:
            self.nmsg += 1
            self.send_bytes(luba_frame(0x33, [tx_id, 0]),
                            now + 1500 + r.randrange(0, 500), ("acc", self.nmsg))
        dur = ff_dur(bits)
        start = self.line.reserve(now + r.randrange(500, 1500), dur)
        end = start + dur
        fbytes = list(value.to_bytes(nbytes, "big"))
        trunc = self.truncate_confirm.get(idx)
        lost_conf = idx in self.silent_confirm or trunc is not None
        lat1 = self.lat.draw(self.name, "c1", idx)
        conf_arrival = end + 3000 + lat1 + self.late_confirm.get(idx, 0)
        conf_planned = conf_arrival
        if trunc is not None:
            self.event(0, bits, [tx_id] + fbytes, conf_arrival, "sent-truncated", truncate=trunc)
        if not lost_conf:
            conf_arrival = self.event(0, bits, [tx_id] + fbytes, conf_arrival, "sent") or conf_arrival
        if twice:
            gap = r.randrange(SETTLE_FF_FF_MIN, 30000)
            start2 = self.line.reserve(end + gap, dur, gap_us=0)
            end = start2 + dur
            conf_planned = conf_arrival = max(conf_arrival + 1000,
                               end + 3000 + self.lat.draw(self.name, "c2", idx))
            if not lost_conf:
                conf_arrival = self.event(0, bits, [tx_id] + fbytes, conf_arrival, "sent2") or conf_arrival
        outcome = self.bus.transmit(bits, value, twice, end, unit, "own")
        rec["outcome"] = outcome
        rec["conf_arrival_us"] = None if lost_conf else conf_arrival
        rec["answer_arrival_us"] = None
        if outcome[0] == "silent":
            self.line.free_at = max(self.line.free_at, end + T_NO_ANSWER)
            return
        bf_end = end + r.randrange(SETTLE_FF_BF_MIN, SETTLE_FF_BF_MAX) + T_BF
        self.line.free_at = max(self.line.free_at, bf_end)
        mode_ = self.answer_mode
        if mode_ == "mixed":
            mode_ = "late" if r.random() < 0.35 else "intime"
        if mode_ == "late":
            # clearly later than the documented 25 ms receive timeout
            delta = r.randrange(30000, 120000)
            self.late_answers += 1
            rec["late"] = True
        else:
            # clearly inside it (<= 80 %)
            delta = r.randrange(6000, 20000)
            rec["late"] = False
        # physical time of the answer relative to the physical time of the
        # confirmation; what the host sees (batching, in-order pipe) follows
        arrival = (conf_planned if self.chunking == "batch" else conf_arrival) + delta
        if idx in self.silent_answer:
            rec["answer_lost"] = True
            return
        rec["answer_arrival_us"] = arrival
        if outcome[0] == "value":
            act = self.event(2, 8, [outcome[1]], arrival, "bf")
            self.answer_arrivals[outcome[1]] = act
        else:
            act = self.event(2, 63, [outcome[1] if len(outcome) > 1 else 0], arrival, "bferr")
        self._classify(rec, conf_arrival, act, 25000)

    # ---- traffic of other masters --------------------------------------------
    def observe_forward(self, bits, value, at_us):
        t = self.event(2, bits, list(value.to_bytes(bits // 8, "big")),
                       at_us + 3000 + self.lat.draw(self.name, "of", self.nmsg), "obs")
        self.observed.append((t, bits, value))

    def observe_backward(self, value, at_us, error=False):
        if error:
            self.event(2, 63, [value], at_us + 2000, "obs-bferr")
        else:
            self.answer_arrivals[value] = self.event(2, 8, [value], at_us + 2000 +
                                                     self.lat.draw(self.name, "ob", self.nmsg), "obs-bf")


def sci_frame(b0, d2, d1, d0):
    body = [b0, d2, d1, d0]
    return bytes(body + [reduce(xor, body)])


class SciGW(SerialDevice):
    name = "sci"

    def __init__(self, world, bus, line, latency, chunking="whole",
                 answer_mode="intime", device_id=5):
        super().__init__(world, chunking)
        self.bus = bus
        self.line = line
        self.lat = latency
        self.answer_mode = answer_mode
        self.device_id = device_id
        self.sends = []
        self.referee_errors = []
        self.nmsg = 0
        self.silent_confirm = set()
        self.silent_answer = set()
        self.late_answers = 0
        self.late_confirm = {}        # send idx -> extra us (beyond the 0.1 s timeout)
        self.foreign_errors = []      # arrival times of error frames caused by other masters' traffic

    def status(self, code, at_us, key, d=(0, 0, 0)):
        self.nmsg += 1
        return self.send_bytes(sci_frame((self.device_id << 4) | code, *d), at_us,
                               (key, self.nmsg))

    def on_host_bytes(self, data, unit):
        self.hostbuf += data
        while len(self.hostbuf) >= 5:
            fr = bytes(self.hostbuf[:5])
            del self.hostbuf[:5]
            if reduce(xor, fr[:4]) != fr[4]:
                self.referee_errors.append(("checksum", fr.hex()))
                self.status(7, self.world.now_us() + 1500, "err", (0, 0, 1))
                continue
            self.on_frame(fr, unit)

    def on_frame(self, fr, unit):
        now = self.world.now_us()
        ctrl = fr[0]
        mode = ctrl & 0x0F
        if ctrl & 0x40:
            # identify: answer with a status frame carrying the device id
            self.status(0, now + 1500 + self.lat.draw(self.name, "id", self.nmsg), "ident")
            return
        rec = {"unit": unit, "raw": fr, "t_us": now, "idx": len(self.sends),
               "ctrl": ctrl}
        self.sends.append(rec)
        if mode == 3:
            bits = 16
        elif mode == 8:
            bits = 24
        else:
            self.referee_errors.append(("mode", fr.hex()))
            self.status(7, now + 1500, "err", (0, 0, 4))
            return
        nbytes = bits // 8
        # transmit layout of the pinned tree: frame left-aligned in bytes 1..3
        value = int.from_bytes(fr[1:1 + nbytes], "big")
        if any(fr[1 + nbytes:4]):
            self.referee_errors.append(("data-padding", fr.hex()))
        twice = bool(ctrl & 0x10)
        rec.update(bits=bits, value=value, twice=twice)
        idx = rec["idx"]
        r = self.world.rng("sci-timing", idx)
        dur = ff_dur(bits)
        start = self.line.reserve(now + r.randrange(500, 1500), dur)
        end = start + dur
        if twice:
            gap = r.randrange(SETTLE_FF_FF_MIN, 30000)
            start2 = self.line.reserve(end + gap, dur, gap_us=0)
            end = start2 + dur
        lat1 = min(self.lat.draw(self.name, "c", idx), 20000)
        conf_arrival = end + 1500 + lat1 + self.late_confirm.get(idx, 0)
        conf_planned = conf_arrival
        lost_conf = idx in self.silent_confirm
        if not lost_conf:
            conf_arrival = self.status(0, conf_arrival, "ok") or conf_arrival
        outcome = self.bus.transmit(bits, value, twice, end, unit, "own")
        rec["outcome"] = outcome
        rec["conf_arrival_us"] = None if lost_conf else conf_arrival
        rec["answer_arrival_us"] = None
        if outcome[0] == "silent":
            self.line.free_at = max(self.line.free_at, end + T_NO_ANSWER)
            return
        bf_end = end + r.randrange(SETTLE_FF_BF_MIN, SETTLE_FF_BF_MAX) + T_BF
        self.line.free_at = max(self.line.free_at, bf_end)
        mode_ = self.answer_mode
        if mode_ == "mixed":
            mode_ = "late" if r.random() < 0.35 else "intime"
        if mode_ == "late":
            delta = r.randrange(36000, 120000)      # >= 120 % of 30 ms
            self.late_answers += 1
            rec["late"] = True
        else:
            delta = r.randrange(6000, 24000)        # <= 80 % of 30 ms
            rec["late"] = False
        arrival = (conf_planned if self.chunking == "batch" else conf_arrival) + delta
        if idx in self.silent_answer:
            rec["answer_lost"] = True
            return
        rec["answer_arrival_us"] = arrival
        self.nmsg += 1
        if outcome[0] == "value":
            act = self.send_bytes(
                sci_frame((self.device_id << 4) | 2, 0, 0, outcome[1]), arrival, ("bf", self.nmsg))
            self.answer_arrivals[outcome[1]] = act
        else:
            # DALI receive error: error frame, code 7, error type 3 - or 5 (collision detected) when
            # the answer was garbled by somebody else transmitting into it
            etype = 5 if self.world.rng("sci-error-type", self.nmsg).random() < 0.3 else 3
            act = self.send_bytes(sci_frame((self.device_id << 4) | 7, 0, 0, etype),
                                  arrival, ("bferr", self.nmsg))
            self.foreign_errors.append(act)      # error frames of any origin
        self._classify(rec, conf_arrival, act, 30000)

    def observe_forward(self, bits, value, at_us):
        b = list(value.to_bytes(3, "big"))     # right-aligned (receive layout)
        code = 3 if bits == 16 else 8
        self.nmsg += 1
        t = self.send_bytes(sci_frame((self.device_id << 4) | code, *b),
                            at_us + 1500 + self.lat.draw(self.name, "of", self.nmsg),
                            ("obs", self.nmsg))
        self.observed.append((t, bits, value))

    def observe_backward(self, value, at_us, error=False):
        self.nmsg += 1
        if error:
            t = self.send_bytes(sci_frame((self.device_id << 4) | 7, 0, 0, 3),
                                at_us + 1500, ("obs-err", self.nmsg))
            self.foreign_errors.append(t)
        else:
            self.answer_arrivals[value] = self.send_bytes(
                sci_frame((self.device_id << 4) | 2, 0, 0, value), at_us + 1500, ("obs-bf", self.nmsg))
