"""Stub modules so that the legacy synchronous drivers import offline
(`usb`, `hid`, `pymodbus.client.sync`).  Their backends are replaced by fake
objects bound to gateway models in syncsim."""
import sys
import types


def _ensure(name):
    if name in sys.modules:
        return sys.modules[name]
    m = types.ModuleType(name)
    sys.modules[name] = m
    return m


def install():
    try:
        import usb  # noqa: F401
    except ImportError:
        usb = _ensure("usb")
        core = _ensure("usb.core")
        util = _ensure("usb.util")
        usb.core, usb.util = core, util

        class USBError(IOError):
            def __init__(self, msg="", errno=None):
                super().__init__(msg)
                self.errno = errno
        core.USBError = USBError
        core.find = lambda **kw: []
        util.ENDPOINT_OUT, util.ENDPOINT_IN = 0x00, 0x80
        util.endpoint_direction = lambda a: a & 0x80
        util.find_descriptor = lambda intf, custom_match=None: None
        util.claim_interface = lambda dev, i: None
        util.dispose_resources = lambda dev: None
    try:
        import hid  # noqa: F401
    except ImportError:
        hid = _ensure("hid")

        class device:
            def open(self, *a):
                raise IOError("no device")

            def open_path(self, *a):
                raise IOError("no device")
        hid.device = device
        hid.enumerate = lambda *a: []
    try:
        import pymodbus.client.sync  # noqa: F401
    except ImportError:
        import pymodbus.client as pc
        sync = _ensure("pymodbus.client.sync")
        pc.sync = sync

        class _Client:
            def __init__(self, *a, **kw):
                pass
        sync.ModbusSerialClient = _Client
        sync.ModbusTcpClient = _Client


install()
