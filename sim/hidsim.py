"""Fake `os` seam for dali.driver.hid plus models of the Tridonic DALI-USB and
hasseb gateways.  Written from the protocol constants/comments in the driver
and IEC 62386-101 timing - not from the driver's logic.

Times are seconds as floats but always derived from integer microseconds.
"""
import errno
import os as _real_os
import struct

US = 1e-6

# IEC 62386-101 timing (microseconds)
TE = 416.67
T_FF16 = 15830     # 1 start + 16 data bits + 2 stop = 38 Te
T_FF24 = 22500     # 54 Te
T_BF = 9170        # 22 Te
SETTLE_FF_BF_MIN, SETTLE_FF_BF_MAX = 5500, 10500
SETTLE_FF_FF_MIN = 13500     # priority 1 .. 5: 13.5 .. 19.x ms
T_NO_ANSWER = 10600          # gateway decides "no backward frame"


class Latency:
    """Per-run latency profile of the host link (USB / RS232 / firmware)."""
    PROFILES = {
        "fast": (50, 400),
        "nominal": (400, 3000),
        "slow": (5000, 40000),
    }

    def __init__(self, world, profile, adversarial_values=()):
        self.world = world
        self.profile = profile
        self.adv = list(adversarial_values)

    def draw(self, *key):
        r = self.world.rng("lat", *key)
        if self.profile == "adversarial" and self.adv:
            if r.random() < 0.5:
                return r.choice(self.adv)
            lo, hi = self.PROFILES["nominal"]
        else:
            lo, hi = self.PROFILES.get(self.profile, self.PROFILES["nominal"])
        return r.randrange(lo, hi + 1)


class BusLine:
    """The shared two-wire medium: serialises transmissions of all masters."""

    def __init__(self):
        self.free_at = 0       # us

    def reserve(self, earliest_us, dur_us, gap_us=SETTLE_FF_FF_MIN):
        start = max(int(earliest_us), self.free_at + gap_us)
        self.free_at = start + dur_us
        return start


def ff_dur(bits):
    return T_FF24 if bits == 24 else T_FF16


class HidDevice:
    """Base of the hidraw device models: fd queue, presence, faults."""
    name = "hid"

    def __init__(self, world):
        self.world = world
        self.loop = world.loop
        self.present = True
        self.generation = 0
        self.fd = None
        self.queue = []
        self._last_deliver = 0.0
        self._piles = {}
        self.gone_mode = None         # None | "eof" | "oserror"
        self.open_failures_left = 0
        self.opens = 0
        self.open_attempts = []       # (t_us, ok)
        self.write_count = 0
        self.write_fault_at = set()   # write indices that raise OSError
        self.return_delay_us = None   # when gone: come back after this long
        self.faults_fired = {}
        self.writes = []              # (seq#, t_us, unit, bytes)
        self.delivered = []           # (t_us, report) as handed to the driver
        self.delivered_gens = []      # device generation of each delivered report
        self.detections = []          # (t_us, how): the driver was told the device is gone
        self.losses = []              # (t_us, mode)
        self.returns = []             # t_us
        self.open_failures_on_return = 0
        self.on_attempt = None        # callback(t_us, ok)
        self.on_detect = None         # callback(t_us)
        self.on_back = None           # callback(t_us)
        self.node = "/dev/dali/daliusb-sim"   # the device node that exists while the device is present
        self.unexpected_open_failures = []
        self.fd_base = 3              # a second gateway in the same process hands out descriptors from 1000
        self.renumber = False         # with a glob pattern: the node name changes every time the device comes back
        self.stalls = []              # [start_us, dur_us]: the host does not get round to reading (loop blocked,
        #                               process descheduled); reports pile up in the hidraw buffer until the end
        self._fired_iter = -1         # loop iteration in which the reader was last called
        self._refire_pending = False

    # ---- presence ------------------------------------------------------
    def lose(self, mode="eof", return_after_us=None):
        """The device disappears now (USB unplug / hub reset)."""
        if not self.present:
            return
        self.present = False
        self.gone_mode = mode
        self.losses.append((self.world.now_us(), mode))
        self.world.log.add(self.loop.time(), "dev-lost", self.name, mode)
        self.on_lost()
        if return_after_us is not None:
            self.loop.at(self.loop.time() + return_after_us * US, self.come_back)
        if self.fd is not None:
            # a vanished hidraw node polls readable (HUP/ERR)
            self.loop.call_soon(self._refire)

    def come_back(self):
        if self.present:
            return
        self.present = True
        self.gone_mode = None
        self.generation += 1
        self.queue = []
        self.returns.append(self.world.now_us())
        if self.renumber:
            # a replugged USB device re-enumerates under the next free hidraw node
            self.node = "/dev/dali/daliusb-sim%d" % len(self.returns)
        self.open_failures_left = self.open_failures_on_return
        self.world.log.add(self.loop.time(), "dev-back", self.name, None)
        self.on_reset()
        if self.on_back:
            self.on_back(self.world.now_us())

    def on_lost(self):
        pass

    def on_reset(self):
        pass

    # ---- os-level operations ---------------------------------------------
    def os_open(self, path=None):
        self.world.seam_call()
        t = int(round(self.loop.time() * 1e6))
        stale = self.renumber and path is not None and path != self.node
        if stale:
            self._bump("open-stale-node-name")
            if self.present and self.open_failures_left <= 0:
                # the device is there and can be opened - under the name the pattern matches *now*
                self.unexpected_open_failures.append((t, path, self.node))
        if not self.present or self.open_failures_left > 0 or stale:
            if self.present and not stale:
                self.open_failures_left -= 1
                self._bump("open-fail")
            self.open_attempts.append((t, False))
            self.world.log.add(self.loop.time(), "open", self.name, "fail")
            if self.on_attempt:
                self.on_attempt(t, False)
            raise OSError(errno.ENOENT, "No such device")
        self.opens += 1
        self.open_attempts.append((t, True))
        self.fd = self.fd_base + self.opens
        self.queue = []
        self.on_open()
        self.world.log.add(self.loop.time(), "open", self.name, "ok")
        if self.on_attempt:
            self.on_attempt(t, True)
        return self.fd

    def os_close(self, fd):
        if fd == self.fd:
            self.fd = None
            self.queue = []
            self.world.log.add(self.loop.time(), "close", self.name, None)

    def os_read(self, fd, n):
        self.world.seam_call()
        if fd != self.fd:
            raise OSError(errno.EBADF, "bad fd")
        if not self.present:
            self._bump("read-" + (self.gone_mode or "eof"))
            self.detections.append((self.world.now_us(), "read"))
            if self.on_detect:
                self.on_detect(self.world.now_us())
            if self.gone_mode == "oserror":
                raise OSError(errno.EIO, "Input/output error")
            return b""
        if not self.queue:
            raise BlockingIOError(errno.EAGAIN, "would block")
        return self.queue.pop(0)[:n]

    def os_write(self, fd, data):
        self.world.seam_call()
        if fd != self.fd:
            raise OSError(errno.EBADF, "bad fd")
        idx = self.write_count
        self.write_count += 1
        if idx in self.write_fault_at and self.present:
            # the write is what discovers that the device is gone
            self._bump("write-oserror")
            self.lose("eof", self.return_delay_us)
        if not self.present:
            self.detections.append((self.world.now_us(), "write"))
            if self.on_detect:
                self.on_detect(self.world.now_us())
            self.world.log.add(self.loop.time(), "write-fail", self.name, None)
            raise OSError(errno.ENODEV, "No such device")
        unit = self.world.unit.get()
        seqno = self.world.log.add(self.loop.time(), "write", self.name,
                                   (unit, bytes(data).hex()[:24]))
        self.writes.append((seqno, int(round(self.loop.time() * 1e6)), unit,
                            bytes(data)))
        if self.world.on_write:
            self.world.on_write()
        self.on_write(bytes(data), unit)
        return len(data)

    # ---- report delivery ---------------------------------------------------
    def deliver(self, data, at_us):
        stalled = False
        for s0, dur in self.stalls:
            if s0 <= at_us < s0 + dur:
                at_us, stalled = s0 + dur, True
        if stalled:
            # a burst: everything that piled up becomes readable at the same instant, in the
            # order the gateway produced it (timers of equal time are not FIFO in asyncio, so
            # one timer releases the whole pile)
            t = max(at_us * US, self._last_deliver, self.loop.time())
            self._bump("host-stall")
            self._last_deliver = t
            pile = self._piles.get(t)
            if pile is None:
                pile = self._piles[t] = []
                self.loop.at(t, self._release_pile, t)
            pile.append((self.generation, data))
            return t
        t = max(at_us * US, self._last_deliver + US, self.loop.time())
        self._last_deliver = t
        self.loop.at(t, self._arrive, self.generation, data)
        return t

    def _release_pile(self, t):
        for gen, data in self._piles.pop(t, ()):
            self._arrive(gen, data)

    def _arrive(self, gen, data):
        if gen != self.generation or self.fd is None or not self.present:
            return
        self.queue.append(data)
        self.delivered.append((self.world.now_us(), data))
        self.delivered_gens.append(gen)
        self.world.log.add(self.loop.time(), "report", self.name,
                           data[:9].hex())
        self._refire()

    def _refire(self):
        self._refire_pending = False
        if self.fd is None:
            return
        if self.queue or not self.present:
            if self._fired_iter == self.loop.iterations:
                # a selector reports a descriptor once per loop iteration: the next
                # queued report is read in the next one
                self._refire_soon()
                return
            self._fired_iter = self.loop.iterations
            if self.loop.fire_reader(self.fd):
                if self.fd is not None and (self.queue or not self.present):
                    self._refire_soon()

    def _refire_soon(self):
        if not self._refire_pending:
            self._refire_pending = True
            self.loop.call_soon(self._refire)

    def _bump(self, k):
        self.faults_fired[k] = self.faults_fired.get(k, 0) + 1

    def on_open(self):
        pass

    def on_write(self, data, unit):
        pass


class FakeOS:
    """Stands in for the `os` module inside dali.driver.hid."""
    O_RDWR = _real_os.O_RDWR
    O_NONBLOCK = _real_os.O_NONBLOCK

    def __init__(self, device):
        self.device = device
        self.second = None          # another gateway (another DALI line) in the same process

    def _by_fd(self, fd):
        return self.second if (self.second is not None and fd is not None and fd >= 1000) else self.device

    def open(self, path, flags):
        if self.second is not None and str(path).endswith("lineB"):
            return self.second.os_open(path)
        return self.device.os_open(path)

    def close(self, fd):
        return self._by_fd(fd).os_close(fd)

    def read(self, fd, n):
        return self._by_fd(fd).os_read(fd, n)

    def write(self, fd, data):
        return self._by_fd(fd).os_write(fd, data)


class FakeGlob:
    def __init__(self, device, path="/dev/dali/daliusb-sim"):
        self.device = device
        self.path = path

    def glob(self, pattern):
        if self.device.present:
            return [self.device.node if self.device.renumber else self.path]
        # no matching node: the driver treats this as a failed attempt
        d = self.device
        d.open_attempts.append((d.world.now_us(), False))
        d.world.log.add(d.loop.time(), "open", d.name, "no-node")
        if d.on_attempt:
            d.on_attempt(d.world.now_us(), False)
        return []


class FakeRandom:
    """dali.driver.hid.random: initial Tridonic sequence number from the plan."""

    def __init__(self, value):
        self.value = value

    def randint(self, a, b):
        return min(max(self.value, a), b)


# ---------------------------------------------------------------------------
class TridonicGW(HidDevice):
    """Tridonic DALI-USB.  Reports are 64 bytes:
    mode, type, frame[4], interval[2], seq, padding."""
    name = "tridonic"
    MODE_INFO, MODE_OBSERVE, MODE_RESPONSE = 0x01, 0x11, 0x12
    R_NO, R_BF, R_FF16, R_FF24, R_INFO = 0x71, 0x72, 0x73, 0x76, 0x77

    def __init__(self, world, bus, line, latency, quirk=False,
                 version=(2, 3), serial=b"\x01\x42\x10\x07"):
        super().__init__(world)
        self.bus = bus
        self.line = line
        self.lat = latency
        self.quirk = quirk
        self.version = version
        self.serial = serial
        self.sends = []          # per SEND: dict(seq, unit, bits, value, twice, outcome, idx)
        self.handshake = []      # since last open: list of INIT sub-commands seen
        self.handshake_violations = []
        self.referee_errors = []
        self.last_own = None     # (bits, value, seq) of the most recent own frame
        self.nreports = 0
        self.hold_init_replies = False

    def on_open(self):
        self.handshake = []

    def on_reset(self):
        self.last_own = None

    def report(self, mode, rtype, frame_val, seq, at_us, b3=None):
        fb = struct.pack(">I", frame_val)
        data = struct.pack(">BB4sHB55x", mode, rtype, fb, 0, seq)
        self.nreports += 1
        self.deliver(data, at_us + self.lat.draw(self.name, self.nreports))

    def on_write(self, data, unit):
        now_us = int(round(self.loop.time() * 1e6))
        if len(data) != 64:
            self.referee_errors.append(("length", len(data)))
            return
        cmd, seq, ctrl, mode = data[0], data[1], data[2], data[3]
        if cmd == 0x01:
            if any(data[2:]):
                self.referee_errors.append(("init-padding", data.hex()))
            self.handshake.append(seq)
            if self.hold_init_replies:
                return
            if seq == 0x00:
                d = bytearray(64)
                d[0] = self.MODE_INFO
                d[3], d[4] = self.version
                self.nreports += 1
                self.deliver(bytes(d), now_us + self.lat.draw(self.name, "v", self.nreports))
            elif seq == 0x02:
                d = bytearray(64)
                d[0] = self.MODE_INFO
                d[1:5] = self.serial
                self.nreports += 1
                self.deliver(bytes(d), now_us + self.lat.draw(self.name, "s", self.nreports))
            else:
                self.referee_errors.append(("init-subcommand", seq))
            return
        if cmd != 0x12:
            self.referee_errors.append(("unknown-command", cmd))
            return
        # ---- SEND ----
        if self.handshake[:2] != [0x00, 0x02]:
            self.handshake_violations.append((now_us, list(self.handshake)))
        rec = {"seq": seq, "unit": unit, "ctrl": ctrl, "mode": mode,
               "raw": data, "t_us": now_us, "idx": len(self.sends), "gen": self.generation}
        self.sends.append(rec)
        if any(data[8:]):
            self.referee_errors.append(("send-padding", data.hex()))
        if mode == 3:
            bits = 16
        elif mode == 6:
            bits = 24
        else:
            self.referee_errors.append(("mode", mode))
            return
        value = struct.unpack(">I", data[4:8])[0]
        if value >> bits:
            self.referee_errors.append(("frame-alignment", data[:8].hex()))
            value &= (1 << bits) - 1
        if not 1 <= seq <= 255:
            self.referee_errors.append(("seq-range", seq))
        if ctrl & ~0x20:
            self.referee_errors.append(("ctrl-bits", ctrl))
        twice = bool(ctrl & 0x20)
        rec.update(bits=bits, value=value, twice=twice)
        rtype = self.R_FF16 if bits == 16 else self.R_FF24
        dur = ff_dur(bits)
        r = self.world.rng("tri-timing", rec["idx"])
        start = self.line.reserve(now_us + r.randrange(100, 600), dur)
        end = start + dur
        self.report(self.MODE_RESPONSE, rtype, value, seq, end)
        if twice:
            gap = r.randrange(SETTLE_FF_FF_MIN, 30000)
            start2 = self.line.reserve(end + gap, dur, gap_us=0)
            end = start2 + dur
            self.report(self.MODE_RESPONSE, rtype, value, seq, end)
        outcome = self.bus.transmit(bits, value, twice, end, unit, "own")
        rec["outcome"] = outcome
        kind = outcome[0]
        if kind == "silent":
            self.line.free_at = max(self.line.free_at, end + T_NO_ANSWER)
            self.report(self.MODE_RESPONSE, self.R_NO, 0, seq, end + T_NO_ANSWER)
            self.last_own = (bits, value, seq, end + T_NO_ANSWER)
        else:
            settle = r.randrange(SETTLE_FF_BF_MIN, SETTLE_FF_BF_MAX)
            bf_end = end + settle + T_BF
            self.line.free_at = max(self.line.free_at, bf_end)
            if kind == "value":
                self.report(self.MODE_RESPONSE, self.R_BF, outcome[1], seq, bf_end)
            else:
                self.report(self.MODE_RESPONSE, self.R_INFO, 3, seq, bf_end)
            self.last_own = (bits, value, seq, bf_end)

    # ---- traffic from other masters, as the gateway reports it ----------
    def observe_forward(self, bits, value, at_us):
        """Another master's forward frame ended at at_us."""
        rtype = self.R_FF16 if bits == 16 else self.R_FF24
        # documented firmware quirk: a foreign frame equal to the frame we
        # transmitted last is reported as if it were ours (old seq) - only
        # once that command has completed
        if self.quirk and self.last_own and self.last_own[:2] == (bits, value) \
                and at_us > self.last_own[3]:
            self.quirk_fired = getattr(self, "quirk_fired", 0) + 1
            self.report(self.MODE_RESPONSE, rtype, value, self.last_own[2], at_us)
        else:
            self.report(self.MODE_OBSERVE, rtype, value, 0, at_us)

    def observe_backward(self, value, at_us, error=False):
        if error:
            self.report(self.MODE_OBSERVE, self.R_INFO, 3, 0, at_us)
        else:
            self.report(self.MODE_OBSERVE, self.R_BF, value, 0, at_us)

    def observe_none(self, at_us):
        self.report(self.MODE_OBSERVE, self.R_NO, 0, 0, at_us)


# ---------------------------------------------------------------------------
class HassebGW(HidDevice):
    """hasseb DALI Master (async hid driver flavour): 2-byte frames in,
    2-byte status reports out, a status report only for commands its
    internal table knows to expect an answer (device type 0 queries)."""
    name = "hasseb"
    NO_DATA, NO_ANSWER, OK, INVALID = 0, 1, 2, 3

    def __init__(self, world, bus, line, latency, idle_spam=False):
        super().__init__(world)
        self.bus = bus
        self.line = line
        self.lat = latency
        self.idle_spam = idle_spam
        self.sends = []
        self.referee_errors = []
        self.nreports = 0
        self.expects_answer = lambda bits, value: False   # set by harness
        self._pending_twice = None

    def on_open(self):
        if self.idle_spam:
            self._spam(self.generation, self.opens)

    def _spam(self, gen, opens):
        if gen != self.generation or opens != self.opens or self.fd is None:
            return
        now_us = int(round(self.loop.time() * 1e6))
        self.deliver(bytes([self.NO_DATA, 0]), now_us)
        self.loop.at(self.loop.time() + 0.05, self._spam, gen, opens)

    def on_write(self, data, unit):
        now_us = int(round(self.loop.time() * 1e6))
        if len(data) != 2:
            self.referee_errors.append(("length", len(data)))
            return
        value = (data[0] << 8) | data[1]
        rec = {"unit": unit, "bits": 16, "value": value, "raw": data,
               "t_us": now_us, "idx": len(self.sends), "gen": self.generation}
        self.sends.append(rec)
        r = self.world.rng("hasseb-timing", rec["idx"])
        dur = ff_dur(16)
        start = self.line.reserve(now_us + r.randrange(100, 600), dur)
        end = start + dur
        outcome = self.bus.transmit(16, value, False, end, unit, "own")
        rec["outcome"] = outcome
        if not self.expects_answer(16, value):
            rec["reported"] = False
            if outcome[0] != "silent":
                self.line.free_at = max(self.line.free_at, end + 10500 + T_BF)
            return
        rec["reported"] = True
        self.nreports += 1
        if outcome[0] == "silent":
            t = end + T_NO_ANSWER
            self.line.free_at = max(self.line.free_at, t)
            rep = bytes([self.NO_ANSWER, 0])
        else:
            settle = r.randrange(SETTLE_FF_BF_MIN, SETTLE_FF_BF_MAX)
            t = end + settle + T_BF
            self.line.free_at = max(self.line.free_at, t)
            if outcome[0] == "value":
                rep = bytes([self.OK, outcome[1]])
            else:
                rep = bytes([self.INVALID, outcome[1] if len(outcome) > 1 else 0])
        rec["rep_arrival_us"] = int(round(self.deliver(rep, t + self.lat.draw(self.name, self.nreports)) * 1e6))
