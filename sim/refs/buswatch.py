"""Reference bus watcher (DESIGN.md appendix B), written from the text of
property C20.  Input: the reports the gateway delivered, in order, with their
arrival times; output: the list of expected emissions (t_us, cmd, resp, flag).

Interpretation of a frame is delegated to the library's own pure decoder
(C01/C12 are not judged here); what is judged is *which* frames are reported,
once, in order, with which device-type context, how they are paired and how
subscribers are served.
"""
import dali.command
from sim.cmds import decode as _decode
import dali.frame
from dali.gear.general import EnableDeviceType

TIMEOUT_US = 200_000


class Pending:
    __slots__ = ("cmd", "t")

    def __init__(self, cmd, t):
        self.cmd, self.t = cmd, t


def classify_tridonic(data):
    """-> ("ff", bits, value) | ("bf", value) | ("bferr",) | ("none",) | None"""
    mode, rtype = data[0], data[1]
    if mode not in (0x11, 0x12):
        return None
    val = int.from_bytes(data[2:6], "big")
    if rtype == 0x73:
        return ("ff", 16, val)
    if rtype == 0x76:
        return ("ff", 24, val)
    if rtype == 0x72:
        return ("bf", val)
    if rtype == 0x71:
        return ("none",)
    if rtype == 0x77 and data[5] == 3:
        return ("bferr",)
    if rtype == 0x77:
        return ("status",)          # a bus status report: not a frame, not an answer
    return None


def reference(reports, dev_inst_map=None, end_us=None, status_restarts=False):
    """reports: [(t_us, classified)].  Returns (emissions, ambiguous) where
    ambiguous is True if some gap fell inside the band the oracle refuses to
    judge (150..250 ms while something was pending).

    The property speaks of the watcher's timeout without saying whether a report that
    is neither frame nor answer (a bus status report) counts as activity: both readings
    are offered (status_restarts), the caller accepts either."""
    out = []
    pending = None
    dt = 0
    ambiguous = False
    stats = reference.stats = {}

    def emit(t, cmd, resp, flag, why="immediate"):
        out.append((t, cmd, resp, flag, why))

    def timeout(p):
        t = p.t + TIMEOUT_US
        if p.cmd.sendtwice:
            emit(t, p.cmd, None, True, "twice-failed-timeout")
        else:
            emit(t, p.cmd, p.cmd.response(None), False, "query-timeout")

    for t, item in reports:
        if item is None:
            continue
        if pending is not None:
            gap = t - pending.t
            if 150_000 < gap < 250_000:
                ambiguous = True
            if gap > TIMEOUT_US:
                timeout(pending)
                pending = None
        kind = item[0]
        if kind == "ff":
            f = dali.frame.ForwardFrame(item[1], item[2])
            if pending is not None:
                if pending.cmd.sendtwice:
                    if pending.cmd.frame == f:
                        emit(t, pending.cmd, None, False, "twice-ok")
                        pending = None
                        continue
                    emit(t, pending.cmd, None, True, "twice-failed-mismatch")
                else:
                    emit(t, pending.cmd, pending.cmd.response(None), False,
                         "query-resolved-by-next-frame")
                pending = None
            cmd = _decode(f, dt, dev_inst_map)
            if dt and not cmd.devicetype:
                stats["dt-context-expired"] = stats.get("dt-context-expired", 0) + 1
            dt = cmd.param if isinstance(cmd, EnableDeviceType) else 0
            if cmd.sendtwice or cmd.response:
                pending = Pending(cmd, t)
            else:
                emit(t, cmd, None, False)
        elif kind in ("bf", "bferr"):
            if pending is not None:
                if pending.cmd.sendtwice:
                    emit(t, pending.cmd, None, True, "twice-failed-backward")
                else:
                    b = dali.frame.BackwardFrameError(255) if kind == "bferr" \
                        else dali.frame.BackwardFrame(item[1])
                    emit(t, pending.cmd, pending.cmd.response(b), False, "query-answered")
                pending = None
        elif kind == "status":
            stats["status-report"] = stats.get("status-report", 0) + 1
            if pending is not None:
                stats["status-report-while-pending"] = stats.get("status-report-while-pending", 0) + 1
                if status_restarts:
                    pending.t = t
        elif kind == "none":
            if pending is not None:
                if pending.cmd.sendtwice:
                    emit(t, pending.cmd, None, True, "twice-failed-noframe")
                else:
                    emit(t, pending.cmd, pending.cmd.response(None), False, "explicit-no-frame")
                pending = None
    if pending is not None:
        if end_us is not None and 150_000 < end_us - pending.t < 250_000:
            ambiguous = True
        if end_us is None or end_us - pending.t > TIMEOUT_US:
            timeout(pending)
    return out, ambiguous


def same_emission(exp, got):
    """exp: (t, cmd, resp, flag) reference; got: (t, cmd, resp, flag) observed.
    Returns None if equal, else a short description."""
    ec, er, ef = exp[1], exp[2], exp[3]
    gc, gr, gf = got[1], got[2], got[3]
    if type(ec) is not type(gc) or ec.frame != gc.frame or len(ec.frame) != len(gc.frame):
        return "command %s != %s" % (gc, ec)
    if bool(ef) != bool(gf):
        return "error flag %r != %r for %s" % (gf, ef, ec)
    if (er is None) != (gr is None):
        return "response %s != %s for %s" % (_r(gr), _r(er), ec)
    if er is not None:
        if type(er) is not type(gr):
            return "response type %s != %s for %s" % (type(gr).__name__, type(er).__name__, ec)
        a, b = er.raw_value, gr.raw_value
        if (a is None) != (b is None):
            return "response value %s != %s for %s" % (b, a, ec)
        if a is not None and (a.error != b.error or (not a.error and a.as_integer != b.as_integer)):
            return "response value %s != %s for %s" % (b, a, ec)
    return None


def _r(r):
    return None if r is None else "%s(%s)" % (type(r).__name__, r.raw_value)
