"""Reference deframers for the LUBA and SCI serial protocols (C19), written
from the grammar in DESIGN.md section 4/C19 - a pure function of the byte
stream, independent of chunking.

Each returns (items, malformed) where items is a list of
  ("raw", value)                      backward-frame value
  ("conf", tx_id, bits|None, value)   LUBA transmit confirmation
  ("info", tuple) / ("settings", tuple) / ("sysmsg", id, code)
  ("cmd", bits, value, devicetype_context)   observed forward frame
and malformed is True if the stream contained a checksum-valid frame whose
payload is malformed for its type (the driver reports those by raising
deliberately; such streams are set aside, as the property prescribes).
"""
from functools import reduce
from operator import xor

LUBA_KNOWN = {0x2A, 0x2B, 0x2C, 0x2D, 0x20, 0x21, 0x31, 0x32, 0x33, 0x34, 0x35, 0x36, 0x37}
LUBA_MAX_PAYLOAD = 20
EDT_ADDR = 0xC1


def luba_frame(cmd, payload):
    body = [cmd, len(payload)] + list(payload)
    return bytes([0x59] + body + [reduce(xor, body)])


def luba_reference(stream):
    items = []
    malformed = False
    i = 0
    n = len(stream)
    tx_dt = 0
    rx_dt = 0
    while i < n:
        if stream[i] != 0x59:
            i += 1
            continue
        if i + 2 >= n:
            break                       # header incomplete: waits for more
        cmd, ln = stream[i + 1], stream[i + 2]
        if ln == 0 or ln > LUBA_MAX_PAYLOAD:
            i += 3                      # cannot fit: drop the header, resume scanning
            continue
        if i + 3 + ln >= n:
            break                       # frame incomplete
        payload = list(stream[i + 3:i + 3 + ln])
        chk = stream[i + 3 + ln]
        i += 4 + ln
        if reduce(xor, [cmd, ln] + payload) != chk:
            continue
        if cmd not in LUBA_KNOWN:
            continue
        if cmd == 0x31:
            if ln < 4:
                malformed = True
                continue
            status = payload[3]
            etype, info = status >> 6, status & 0x3F
            if etype == 0:
                if ln < 5:
                    malformed = True
                    continue
                tx_id = payload[4]
                fb = payload[5:]
                if fb:
                    bits, value = 8 * len(fb), int.from_bytes(bytes(fb), "big")
                    items.append(("conf", tx_id, bits, value, tx_dt))
                    tx_dt = (value & 0xFF) if (bits == 16 and (value >> 8) == EDT_ADDR) else 0
                else:
                    items.append(("conf", tx_id, None, None, tx_dt))
                    tx_dt = 0
            elif etype == 2:
                if not 1 <= info <= 32:
                    continue
                fb = payload[4:]
                if len(fb) == 0:
                    continue
                if len(fb) == 1:
                    items.append(("raw", fb[0]))
                else:
                    bits, value = 8 * len(fb), int.from_bytes(bytes(fb), "big")
                    items.append(("cmd", bits, value, rx_dt))
                    rx_dt = (value & 0xFF) if (bits == 16 and (value >> 8) == EDT_ADDR) else 0
        elif cmd == 0x33:
            if ln not in (1, 2):
                malformed = True
        elif cmd == 0x21:
            if ln != 20:
                malformed = True
                continue
            items.append(("info", (int.from_bytes(bytes(payload[0:6]), "big"),
                                   int.from_bytes(bytes(payload[6:14]), "big"),
                                   payload[14], payload[15],
                                   int.from_bytes(bytes(payload[16:20]), "big"))))
        elif cmd == 0x2B:
            if ln < 2:
                malformed = True
                continue
            items.append(("settings", (payload[0], payload[1])))
    return items, malformed


def luba_pending(stream):
    """Number of bytes a correct receiver still needs to finish the frame it is
    in at the end of the stream (0 if idle)."""
    i = 0
    n = len(stream)
    while i < n:
        if stream[i] != 0x59:
            i += 1
            continue
        if i + 2 >= n:
            return 24
        ln = stream[i + 2]
        if ln == 0 or ln > LUBA_MAX_PAYLOAD:
            i += 3
            continue
        if i + 3 + ln >= n:
            return (i + 4 + ln) - n
        i += 4 + ln
    return 0


SCI_ERRORS = {1, 2, 3, 4, 5}


def sci_frame(b0, d2, d1, d0):
    body = [b0, d2, d1, d0]
    return bytes(body + [reduce(xor, body)])


def sci_reference(stream):
    items = []
    rx_dt = 0
    for i in range(0, len(stream) - 4, 5):
        g = stream[i:i + 5]
        if reduce(xor, g[:4]) != g[4]:
            continue
        code = g[0] & 0x0F
        if code in (0, 1):
            items.append(("sysmsg", g[0] >> 4, code))
        elif code == 7:
            if g[3] in SCI_ERRORS:
                items.append(("sysmsg", g[0] >> 4, code))
        elif code == 2:
            items.append(("raw", g[3]))
        elif code == 3:
            value = (g[2] << 8) | g[3]
            items.append(("cmd", 16, value, rx_dt))
            rx_dt = (value & 0xFF) if (value >> 8) == EDT_ADDR else 0
        elif code == 8:
            value = (g[1] << 16) | (g[2] << 8) | g[3]
            items.append(("cmd", 24, value, rx_dt))
            rx_dt = 0
    return items, False
