"""Shared pieces: keyed PRNG, event log, violation / harness-error classes."""
import hashlib
import json
import random
import struct


def keyed_int(seed, *key):
    h = hashlib.blake2b(digest_size=8)
    h.update(repr((seed,) + key).encode())
    return struct.unpack(">Q", h.digest())[0]


def keyed_rng(seed, *key):
    """Independent PRNG per structural key: removing an operation while
    minimising does not shift every later choice."""
    return random.Random(keyed_int(seed, *key))


class Violation(Exception):
    """The code under test broke a property (as judged by an oracle)."""

    def __init__(self, prop, clause, detail, driver=None, site=None,
                 trigger=None, reading=None):
        self.sig = {"property": prop, "driver": driver, "clause": clause,
                    "site": site, "trigger": sorted(trigger or [])}
        if reading:
            self.sig["reading"] = reading
        self.detail = detail
        super().__init__("%s/%s/%s/%s: %s" % (prop, driver, clause, site, detail))

    def key(self):
        return sig_key(self.sig)


def sig_key(sig):
    return json.dumps({k: sig.get(k) for k in
                       ("property", "driver", "clause", "site")},
                      sort_keys=True)


class HarnessError(Exception):
    """Something is wrong in /verif code or its assumptions - never a
    violation, never exit 0."""


class EventLog:
    """(seq#, vtime_us, kind, actor, payload).  seq# is the global event
    number; ordering questions use it, not coarse time."""
    __slots__ = ("events", "_h", "keep", "triggers")

    def __init__(self, keep=True):
        self.events = []
        self._h = hashlib.blake2b(digest_size=16)
        self.keep = keep
        self.triggers = None      # {event index: [callable]} - fault placement

    def add(self, t, kind, actor, payload=None):
        rec = (len(self.events), int(round(t * 1e6)), kind, actor, payload)
        self.events.append(rec)
        self._h.update(repr(rec).encode())
        if self.triggers:
            fns = self.triggers.pop(rec[0], None)
            if fns:
                for fn in fns:
                    fn()
        return rec[0]

    def digest(self):
        return self._h.hexdigest()

    def shape(self):
        """Schedule signature: sequence of (kind, actor) pairs."""
        h = hashlib.blake2b(digest_size=8)
        for e in self.events:
            h.update(repr((e[2], e[3])).encode())
        return h.hexdigest()

    def __len__(self):
        return len(self.events)


def jsonable(x):
    if isinstance(x, (str, int, float, bool)) or x is None:
        return x
    if isinstance(x, (bytes, bytearray)):
        return x.hex()
    if isinstance(x, dict):
        return {str(k): jsonable(v) for k, v in x.items()}
    if isinstance(x, (list, tuple, set, frozenset)):
        return [jsonable(v) for v in x]
    return repr(x)
