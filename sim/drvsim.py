"""drvsim: run the real asyncio drivers (hid.tridonic, hid.hasseb,
serial.DriverLubaRs232, serial.DriverSCIRS232) under the virtual loop against
gateway models, driven by a JSON-able plan.  Returns a RunRecord that the
per-property oracles judge.
"""
import asyncio
import inspect
import logging

import dali.driver.hid as hidmod
import dali.driver.serial as sermod
import dali.sequences as seqmod
from dali.exceptions import CommunicationError  # noqa: F401

from . import cmds
from .core import HarnessError
from .hidsim import (BusLine, FakeGlob, FakeOS, FakeRandom, HassebGW, Latency,
                     TridonicGW)
from .loop import SimDeadlock, SimLivelock, SimStepCap
import signal

SPIN_CPU_S = 3
from .serialsim import FakeSerialAsyncio, LubaGW, SciGW
from .world import ScriptedBus, World

logging.disable(logging.CRITICAL)

DRIVERS = ("tridonic", "hasseb", "luba", "sci")

ADVERSARIAL = {
    "tridonic": (150, 900, 20000, 45000),
    "hasseb": (150, 900, 20000, 45000),
    "luba": (150, 900, 12000, 18000),
    "sci": (150, 900, 12000, 18000),
}


class ProgBoom(Exception):
    """Raised by the harness's progress callback."""


class SeqBoom(Exception):
    """Raised on purpose by a harness sequence."""


class OpRec:
    __slots__ = ("unit", "op", "status", "result", "exc", "gen", "gen_state",
                 "responses", "t_start", "t_end", "ev_start", "ev_end",
                 "progress", "cancel_requested", "finished")

    def __init__(self, unit, op):
        self.unit = unit
        self.op = op
        self.status = "pending"
        self.result = None
        self.exc = None
        self.gen = None
        self.gen_state = None
        self.responses = []
        self.t_start = self.t_end = None
        self.ev_start = self.ev_end = None
        self.progress = 0
        self.cancel_requested = False
        self.finished = False


class RunRecord:
    pass


def _install(world, plan, dev):
    saved = {}
    drv = plan["driver"]
    if drv in ("tridonic", "hasseb"):
        saved = {"os": hidmod.os, "glob": hidmod.glob, "random": hidmod.random}
        hidmod.os = FakeOS(dev)
        hidmod.glob = FakeGlob(dev)
        hidmod.random = FakeRandom(plan["knobs"].get("init_seq", 1))
    else:
        saved = {"serial_asyncio": sermod.serial_asyncio}
        sermod.serial_asyncio = FakeSerialAsyncio(world, dev)
    if plan["knobs"].get("wait_for") == "py38-311":
        from .legacy_asyncio import LegacyAsyncio
        mod = hidmod if drv in ("tridonic", "hasseb") else sermod
        saved["asyncio"] = mod.asyncio
        mod.asyncio = LegacyAsyncio()
        world.probe("wait_for-py38-311")
    return saved


def _uninstall(plan, saved):
    mod = hidmod if plan["driver"] in ("tridonic", "hasseb") else sermod
    for k, v in saved.items():
        setattr(mod, k, v)


def unit_outcomes(plan):
    """{unit: {"bits:value": outcome}} from the ops of the plan."""
    out = {}
    for c in plan["callers"]:
        for i, op in enumerate(c["ops"]):
            u = "%s.%d" % (c["id"], i)
            if op.get("outs"):
                out[u] = dict(op["outs"])
    return out


def op_cmd_specs(op):
    k = op["kind"]
    if k == "send":
        return [op["cmd"]]
    if k in ("locked", "parallel"):
        return list(op["cmds"])
    if k == "seq":
        return [it[1] for it in op["items"] if it[0] == "cmd"]
    return []


def make_world(plan, units=None):
    world = World(plan["seed"], max_iterations=plan.get("max_iterations", 300_000))
    knobs = plan["knobs"]
    drv = plan["driver"]
    lat = Latency(world, knobs.get("latency", "nominal"), ADVERSARIAL[drv])
    line = BusLine()
    if units is not None:
        from .busim import UnitBus
        bus = UnitBus(world, units)
    else:
        bus = ScriptedBus(world, unit_outcomes(plan))
    if drv == "tridonic":
        dev = TridonicGW(world, bus, line, lat, quirk=knobs.get("quirk", False))
        dev.stalls = [list(x) for x in knobs.get("stalls", [])]
        dev.renumber = bool(knobs.get("glob")) and bool(knobs.get("renumber"))
    elif drv == "hasseb":
        dev = HassebGW(world, bus, line, lat, idle_spam=knobs.get("idle_spam", False))
        dev.stalls = [list(x) for x in knobs.get("stalls", [])]
        dev.renumber = bool(knobs.get("glob")) and bool(knobs.get("renumber"))

        def expects(bits, value):
            return cmds.mk_cmd([bits, value, 0]).response is not None
        dev.expects_answer = expects
    elif drv == "luba":
        dev = LubaGW(world, bus, line, lat, chunking=knobs.get("chunking", "whole"),
                     accept_msg=knobs.get("accept_msg", False),
                     answer_mode=knobs.get("answer_mode", "intime"))
    elif drv == "sci":
        dev = SciGW(world, bus, line, lat, chunking=knobs.get("chunking", "whole"),
                    answer_mode=knobs.get("answer_mode", "intime"))
    else:
        raise HarnessError("unknown driver " + drv)
    return world, dev, bus, line


def harness_seq_bad_close(rec, items, raise_at):
    """Like harness_seq, but yields a clean-up command from a finally clause
    (legal for a finished run, a RuntimeError when the generator is closed
    early - which must not keep the driver from releasing its lock)."""
    try:
        return (yield from harness_seq(rec, items, raise_at))
    finally:
        if not rec.finished:
            yield cmds.mk_cmd([16, 0xA100, 0])       # TERMINATE as clean-up


def harness_seq(rec, items, raise_at):
    n = 0
    for i, it in enumerate(items):
        if raise_at is not None and raise_at == i:
            raise SeqBoom()
        if it[0] == "cmd":
            r = yield cmds.mk_cmd(it[1])
            rec.responses.append(r)
            n += 1
        elif it[0] == "sleep":
            yield seqmod.sleep(it[1] / 1e6)
        elif it[0] == "progress":
            yield seqmod.progress(message="p%d" % i)
    if raise_at is not None and raise_at >= len(items):
        raise SeqBoom()
    rec.finished = True
    return "ret:" + rec.unit


async def _do_op(world, driver, rec, hooks):
    op = rec.op
    k = op["kind"]
    if k == "send":
        cmd = cmds.mk_cmd(op["cmd"])
        if op.get("same_object"):
            # the application keeps one command instance and sends it again and again
            cache = world.__dict__.setdefault("_cmd_objects", {})
            cmd = cache.setdefault(tuple(op["cmd"]), cmd)
        kw = {}
        if "exceptions" in op and op["exceptions"] is not None:
            kw["exceptions"] = op["exceptions"]
        return await driver.send(cmd, **kw)
    if k == "locked":
        out = []
        async with driver.transaction_lock:
            for s in op["cmds"]:
                out.append(await driver.send(cmds.mk_cmd(s), in_transaction=True))
                rec.responses.append(out[-1])
        return out
    if k == "parallel":
        async with driver.transaction_lock:
            out = await asyncio.gather(*[driver.send(cmds.mk_cmd(s), in_transaction=True)
                                         for s in op["cmds"]])
            rec.responses.extend(out)
        return list(out)
    if k == "seq":
        gen = (harness_seq_bad_close if op.get("bad_close") else harness_seq)(
            rec, op["items"], op.get("raise_at"))
        rec.gen = gen

        def prog(p):
            rec.progress += 1
            if op.get("progress_raise_at") is not None and rec.progress - 1 == op["progress_raise_at"]:
                raise ProgBoom()
        return await driver.run_sequence(gen, progress=prog)
    if k == "connect":
        r_ = driver.connect()
        if asyncio.iscoroutine(r_):
            r_ = await r_
        return None
    if k in hooks:
        return await hooks[k](world, driver, rec)
    raise HarnessError("unknown op kind %r" % k)


async def _caller(world, driver, c, recs, hooks):
    if c.get("start_at_event") is not None:
        # the caller enters the driver in the very loop iteration in which something else happens
        # (a gateway message arrives, another caller writes): woken from the event log, it runs
        # before whoever that event wakes
        ev = asyncio.Event()
        pre = {}
        loop_ = asyncio.get_running_loop()

        def fire():
            # the first operation's task is created right here, inside the callback that logs the
            # event: its first step is queued ahead of everything the event itself is going to wake
            import contextvars
            if pre.get("dead"):
                return
            unit0 = "%s.0" % c["id"]
            rec0 = recs[unit0]
            ctx = contextvars.copy_context()
            ctx.run(world.unit.set, unit0)
            rec0.t_start = world.now_us()
            rec0.status = "running"
            pre["t"] = loop_.create_task(_do_op(world, driver, rec0, hooks), name="op-" + unit0, context=ctx)
            ev.set()
        if world.log.triggers is None:
            world.log.triggers = {}
        world.log.triggers.setdefault(len(world.log) + c["start_at_event"], []).append(fire)
        try:
            await asyncio.wait_for(ev.wait(), 3.0)
            world.probe("caller-started-on-an-event")
        except asyncio.TimeoutError:
            pre["dead"] = True      # the run never got that far: start now, the trigger is void
    else:
        pre = {}
        await asyncio.sleep(c.get("start_us", 0) / 1e6)
    for i, op in enumerate(c["ops"]):
        unit = "%s.%d" % (c["id"], i)
        rec = recs[unit]
        tok = world.unit.set(unit)
        if i == 0 and pre.get("t") is not None:
            rec.ev_start = world.log.add(world.loop.time(), "op-start", unit, op["kind"])
        else:
            rec.t_start = world.now_us()
            rec.ev_start = world.log.add(world.loop.time(), "op-start", unit, op["kind"])
            rec.status = "running"
        try:
            if i == 0 and pre.get("t") is not None:
                t = pre["t"]
            else:
                coro = _do_op(world, driver, rec, hooks)
                if op.get("timeout_us") is not None:
                    coro = asyncio.wait_for(coro, op["timeout_us"] / 1e6)
                t = asyncio.get_running_loop().create_task(coro, name="op-" + unit)
            if op.get("cancel_after_us") is not None or op.get("cancel_at_event") is not None:
                def _cancel(t=t, rec=rec):
                    if not t.done():
                        rec.cancel_requested = True
                        world.fault("caller-cancel")
                        t.cancel()
                if op.get("cancel_at_event") is not None:
                    if world.log.triggers is None:
                        world.log.triggers = {}
                    world.log.triggers.setdefault(len(world.log) + op["cancel_at_event"], []).append(
                        lambda _c=_cancel: (world.probe("cancel-hooked-to-an-event"), world.loop.call_soon(_c)))
                else:
                    world.loop.at(world.loop.time() + op["cancel_after_us"] / 1e6, _cancel)
            hooks.get("_op_task", lambda *a: None)(rec, t)
            try:
                rec.result = await t
                rec.status = "ok"
            except asyncio.CancelledError:
                if t.cancelled() or t.done():
                    rec.status = "cancelled"
                else:
                    t.cancel()
                    rec.status = "cancelled"
                    raise
            except asyncio.TimeoutError as e:
                rec.status = "timeout" if op.get("timeout_us") is not None else "raised"
                rec.exc = e
                if rec.status == "timeout":
                    world.fault("caller-timeout")
            except SimLivelock as e:
                rec.status = "livelock"
                rec.exc = e
                world.probe("livelock")
            except Exception as e:          # noqa: BLE001 - judged by oracles
                rec.status = "raised"
                rec.exc = e
        finally:
            try:
                world.unit.reset(tok)
            except ValueError:      # coroutine finalised outside its task context
                pass
            rec.t_end = world.now_us()
            rec.ev_end = world.log.add(world.loop.time(), "op-end", unit,
                                       (rec.status, type(rec.exc).__name__ if rec.exc else None))
            if rec.gen is not None:
                rec.gen_state = inspect.getgeneratorstate(rec.gen)
        await asyncio.sleep(op.get("gap_us", 0) / 1e6)


def _schedule_traffic(rr):
    """Transactions of other masters on the shared bus, as the gateway
    observes them.  Each item: {"t_us", "frames": [[bits, value], ...] (sent
    back to back, e.g. a send-twice pair), "answer": None | ["value", v] |
    ["error", v], "noframe": bool, "gap2_us": gap between the frames}."""
    world, dev, line = rr.world, rr.dev, rr.line
    rr.traffic_log = []
    if not hasattr(dev, "observe_forward"):
        return
    t0 = world.loop.time()

    def fire(idx, item):
        from .hidsim import T_BF, T_NO_ANSWER, ff_dur
        now = world.now_us()
        end = now
        first = True
        for bits, value in item["frames"]:
            dur = ff_dur(bits)
            if first:
                start = line.reserve(now, dur)
            else:
                start = line.reserve(end + item.get("gap2_us", 14000), dur, gap_us=0)
            first = False
            end = start + dur
            dev.observe_forward(bits, value, end)
            rr.traffic_log.append((end, "ff", bits, value, idx))
            world.log.add(end * 1e-6, "bus", "other", (bits, value))
        ans = item.get("answer")
        if ans:
            bf_end = end + item.get("settle_us", 7000) + T_BF
            line.free_at = max(line.free_at, bf_end)
            dev.observe_backward(ans[1], bf_end, error=(ans[0] == "error"))
            rr.traffic_log.append((bf_end, "bf", ans[0], ans[1], idx))
            world.log.add(bf_end * 1e-6, "bus", "other-bf", tuple(ans))
        elif item.get("noframe") and hasattr(dev, "observe_none"):
            dev.observe_none(end + T_NO_ANSWER)
            line.free_at = max(line.free_at, end + T_NO_ANSWER)
            rr.traffic_log.append((end + T_NO_ANSWER, "none", None, None, idx))
        world.fault("foreign-traffic")

    for idx, item in enumerate(rr.plan.get("traffic") or []):
        world.loop.at(t0 + item["t_us"] / 1e6, fire, idx, item)

    def status(t_us, code):
        # the Tridonic gateway volunteers bus status reports (0x77 with a status other than
        # "framing error": bus ok, DALI mode, shorted, ...): no frame, no answer - nothing to anybody
        if getattr(dev, "fd", None) is not None and hasattr(dev, "R_INFO"):
            dev.report(dev.MODE_OBSERVE, dev.R_INFO, code, 0, int(round(world.loop.time() * 1e6)))
            world.fault("bus-status-report")

    for t_us, code in rr.plan.get("bus_status") or []:
        world.loop.at(t0 + (t_us + 0.37) / 1e6, status, t_us, code)


async def _start_second_line(rr, sl):
    """A second Tridonic gateway (another DALI line) driven by a second driver object in the same
    process and loop: its own device model, bus and traffic; optionally it is lost in the middle.
    Whatever happens on line B must leave line A alone - and the other way round."""
    world = rr.world
    kind = rr.plan["driver"]
    busB = ScriptedBus(world, {})
    latB = Latency(world, "nominal", ADVERSARIAL[kind])
    rr.lineB = []
    if kind in ("tridonic", "hasseb"):
        if kind == "tridonic":
            devB = TridonicGW(world, busB, BusLine(), latB)
        else:
            devB = HassebGW(world, busB, BusLine(), latB)
            devB.expects_answer = lambda bits, value: cmds.mk_cmd([bits, value, 0]).response is not None
        devB.name = kind + "B"
        devB.fd_base = 1000
        hidmod.os.second = devB
        rr.devB = devB
        drvB = (hidmod.tridonic if kind == "tridonic" else hidmod.hasseb)("/dev/dali/daliusb-lineB", reconnect_interval=0.05)
        rr.driverB = drvB
        drvB.connect()
        try:
            await asyncio.wait_for(drvB.connected.wait(), 30)
        except Exception as e:                          # noqa: BLE001
            rr.lineB.append(("connect", "raised", e, None))
            return
    else:
        devB = (LubaGW if kind == "luba" else SciGW)(world, busB, BusLine(), latB, chunking="whole")
        devB.name = kind + "B"
        sermod.serial_asyncio.second = devB
        rr.devB = devB
        drvB = (sermod.DriverLubaRs232("luba232:/dev/ttySIMB") if kind == "luba"
                else sermod.DriverSCIRS232("scirs232:/dev/ttySIMB"))
        rr.driverB = drvB
        sl = dict(sl)
        sl.pop("lose_at_us", None)          # (no loss model for the serial gateways)
        try:
            await asyncio.wait_for(drvB.connect(), 30)
        except Exception as e:                          # noqa: BLE001
            rr.lineB.append(("connect", "raised", e, None))
            return

    async def traffic():
        await asyncio.sleep(sl.get("start_us", 0) / 1e6)
        for i, (spec, val, gap) in enumerate(sl["sends"]):
            unit = "lineB.%d" % i
            tok = world.unit.set(unit)
            busB.outcomes[unit] = {"%d:%d" % (spec[0], spec[1]): ["value", val]}
            try:
                res = await asyncio.wait_for(drvB.send(cmds.mk_cmd(spec)), 60)
                rr.lineB.append((unit, "ok", res, val))
            except BaseException as e:              # noqa: BLE001
                rr.lineB.append((unit, "raised", e, val))
                if isinstance(e, asyncio.CancelledError):
                    raise
            finally:
                try:
                    world.unit.reset(tok)
                except ValueError:
                    pass
            await asyncio.sleep(gap / 1e6)
    rr.lineB_task = asyncio.get_running_loop().create_task(traffic(), name="lineB")
    if sl.get("lose_at_us") is not None:
        world.loop.at(world.loop.time() + sl["lose_at_us"] / 1e6,
                      lambda: devB.lose("eof", sl.get("return_after_us", 80000)))
    world.probe("second-gateway-in-the-same-process")


def judge_second_line(rr):
    """-> list of (clause, detail, site) for line B: its sends return its own gateway's answers; an
    exception is in order only while its own gateway is away."""
    out = []
    devB = getattr(rr, "devB", None)
    if devB is None:
        return out
    lostB = bool(getattr(devB, "losses", None))
    for unit, st, res, val in getattr(rr, "lineB", []):
        if st == "raised":
            if not (lostB and type(res).__name__ == "CommunicationError"):
                out.append(("second-line-send-failed", "%s on the other gateway raised %r (that gateway %s)" % (
                    unit, res, "was lost in this run" if lostB else "was healthy"), type(res).__name__))
        else:
            raw = getattr(res, "raw_value", None)
            if raw is None or raw.error or raw.as_integer != val:
                out.append(("second-line-answer-wrong", "%s on the other gateway: its bus answered %d, send returned %s" % (
                    unit, val, raw), "value"))
    return out


def make_driver(plan, world):
    d = _make_driver(plan, world)
    k = plan["knobs"]
    late = getattr(world, "_late_map", None)
    if late is not None:
        # the application hands over its (still empty) mapper and fills it afterwards - at once, or
        # in the middle of the run (knob inst_map_fill_at_us, relative to now)
        m, entries = late

        def fill():
            for a, i, t in entries:
                m.add_type(short_address=a, instance_number=i, instance_type=t)
            d._verif_map_filled_us = world.loop.time() * 1e6
            world.probe("instance-map-filled")
        d._verif_inst_map = m
        d._verif_map_filled_us = None
        world._late_map = None
        if k.get("inst_map_fill_at_us") is not None:
            # (never at a report instant: reports are on integer microseconds)
            world.loop.at(world.loop.time() + (k["inst_map_fill_at_us"] + 0.43) / 1e6, fill)
        else:
            fill()
    return d


def _inst_map_arg(k, world):
    if k.get("inst_map") is not None and k.get("inst_map_late"):
        from dali.device.helpers import DeviceInstanceTypeMapper
        m = DeviceInstanceTypeMapper()
        world._late_map = (m, k["inst_map"])
        return m
    return make_inst_map(k.get("inst_map"))


def _make_driver(plan, world):
    drv = plan["driver"]
    k = plan["knobs"]
    if drv in ("tridonic", "hasseb"):
        cls = hidmod.tridonic if drv == "tridonic" else hidmod.hasseb
        d = cls("/dev/dali/daliusb-sim" if not k.get("glob") else "/dev/dali/daliusb-*",
                reconnect_interval=k.get("reconnect_interval", 1),
                reconnect_limit=k.get("reconnect_limit", None),
                glob=bool(k.get("glob")),
                dev_inst_map=_inst_map_arg(k, world))
        if "exceptions_on_send" in k:
            d.exceptions_on_send = k["exceptions_on_send"]
        return d
    if drv == "luba":
        return sermod.DriverLubaRs232("luba232:/dev/ttySIM",
                                      dev_inst_map=_inst_map_arg(k, world))
    return sermod.DriverSCIRS232("scirs232:/dev/ttySIM",
                                 dev_inst_map=_inst_map_arg(k, world))


def make_inst_map(entries):
    if entries is None:
        return None
    from dali.device.helpers import DeviceInstanceTypeMapper
    m = DeviceInstanceTypeMapper()
    for a, i, t in entries:
        m.add_type(short_address=a, instance_number=i, instance_type=t)
    return m


def run(plan, hooks=None):
    """Execute a plan; returns a RunRecord.  Never raises for behaviour of the
    code under test (that is recorded); raises HarnessError for our own bugs."""
    hooks = hooks or {}
    world, dev, bus, line = make_world(plan, units=hooks.get("units"))
    rr = RunRecord()
    rr.plan, rr.world, rr.dev, rr.bus, rr.line = plan, world, dev, bus, line
    rr.ops = {}
    rr.status_events = []
    rr.traffic_events = []
    rr.deadlock = rr.stepcap = rr.livelock = False
    rr.connect_error = None
    rr.pending = []
    for c in plan["callers"]:
        for i, op in enumerate(c["ops"]):
            u = "%s.%d" % (c["id"], i)
            rr.ops[u] = OpRec(u, op)
    saved = _install(world, plan, dev)
    is_hid = plan["driver"] in ("tridonic", "hasseb")

    async def main():
        driver = make_driver(plan, world)
        rr.driver = driver
        if is_hid:
            driver.connection_status_callback.register(
                lambda d, s: (rr.status_events.append((world.now_us(), s)),
                              world.log.add(world.loop.time(), "status", "driver", s)))
        world.on_write = lambda: world.states.add(_abstract_state(plan, driver, rr))
        if "setup" in hooks:
            hooks["setup"](rr)
        try:
            if is_hid:
                driver.connect()
                if not plan["knobs"].get("no_wait_connected"):
                    await asyncio.wait_for(driver.connected.wait(),
                                           plan.get("connect_wait_s", 30))
            else:
                await asyncio.wait_for(driver.connect(), 30)
        except Exception as e:              # noqa: BLE001
            rr.connect_error = e
            return
        rr.t_connected = world.loop.time()
        if plan.get("second_line"):
            await _start_second_line(rr, plan["second_line"])
        if "connected" in hooks:
            hooks["connected"](rr)
        _schedule_traffic(rr)
        tasks = [asyncio.get_running_loop().create_task(
            _caller(world, driver, c, rr.ops, hooks), name="caller-" + c["id"])
            for c in plan["callers"]]
        rr.caller_tasks = tasks
        deadline = plan.get("deadline_s", 600)
        if tasks:
            done, pending = await asyncio.wait(tasks, timeout=deadline)
            rr.pending = [t.get_name() for t in pending]
            for t in done:
                if not t.cancelled() and t.exception() is not None:
                    raise HarnessError("caller task failed: %r" % t.exception())
        if getattr(rr, "lineB_task", None) is not None:
            try:
                await asyncio.wait_for(rr.lineB_task, 120)
            except Exception:                       # noqa: BLE001
                pass
        tr = plan.get("traffic") or []
        if tr:
            # let the whole foreign history play out (frames, answers, reports)
            last = rr.t_connected + (max(it["t_us"] for it in tr) + 400_000) * 1e-6
            if last > world.loop.time():
                await asyncio.sleep(last - world.loop.time())
        if plan.get("settle_s"):
            await asyncio.sleep(plan["settle_s"])
        if "finish" in hooks:
            await hooks["finish"](rr)

    # a task step that never returns to the loop and never touches a seam (a retry
    # loop around an exception raised before any I/O) cannot be seen by the loop:
    # after SPIN_CPU_S of process CPU time inside one run - normal runs take
    # milliseconds - the spinning step is interrupted with SimLivelock
    def _spin(signum, frame):
        world.probe("spin-interrupted")
        signal.setitimer(signal.ITIMER_VIRTUAL, SPIN_CPU_S)      # the next spinning step gets its own allowance
        raise SimLivelock("no return to the event loop for %d s of CPU time" % SPIN_CPU_S)
    old_handler = signal.signal(signal.SIGVTALRM, _spin)
    signal.setitimer(signal.ITIMER_VIRTUAL, SPIN_CPU_S)
    try:
        try:
            world.loop.run_until_complete(main())
        except SimDeadlock:
            rr.deadlock = True
        except SimStepCap:
            rr.stepcap = True
        except SimLivelock:
            rr.stepcap = True
            rr.livelock = True
        rr.unhandled = list(world.loop.unhandled)
        rr.vtime = world.loop.time()
        rr.final = snapshot(plan, getattr(rr, "driver", None))
    finally:
        signal.setitimer(signal.ITIMER_VIRTUAL, 0)
        signal.signal(signal.SIGVTALRM, old_handler)
        try:
            world.loop.shutdown()
        finally:
            _uninstall(plan, saved)
    return rr


def _abstract_state(plan, driver, rr):
    """Abstract state at a wire write: L<lock held>W<waiters>R<running ops>..."""
    lk = driver.transaction_lock
    nw = len(lk._waiters) if lk._waiters else 0
    running = sum(1 for o in rr.ops.values() if o.status == "running")
    s = "L%dW%dR%d" % (1 if nw else 0, min(nw, 3), min(running, 4))
    drv = plan["driver"]
    if drv == "tridonic":
        s += "S%dO%d" % (driver._command_semaphore._value, min(len(driver._outstanding), 3))
    elif drv == "hasseb":
        s += "C%d" % driver._command_lock.locked()
    else:
        p = driver._protocol
        if p is not None:
            s += "Q%d" % min(p._queue_rx_raw_dali.qsize(), 2)
    return drv[0] + s


def snapshot(plan, driver):
    """Abstract driver state at quiescence (before leftovers are cancelled)."""
    if driver is None:
        return {}
    s = {"tx_lock": driver.transaction_lock.locked()}
    drv = plan["driver"]
    if drv == "tridonic":
        s["semaphore"] = driver._command_semaphore._value
        s["outstanding"] = sorted(driver._outstanding)
        s["connected"] = driver.connected.is_set()
        s["reconnect_pending"] = driver._reconnect_task is not None
        s["fd"] = driver._f is not None
    elif drv == "hasseb":
        s["command_lock"] = driver._command_lock.locked()
        s["connected"] = driver.connected.is_set()
        s["reconnect_pending"] = driver._reconnect_task is not None
        s["fd"] = driver._f is not None
    else:
        p = driver._protocol
        if p is not None:
            s["proto_tx_lock"] = p._tx_lock.locked()
            s["q_raw"] = p._queue_rx_raw_dali.qsize()
            if drv == "luba":
                s["q_conf"] = p._queue_tx_conf.qsize()
                s["q_cmd"] = p._queue_rx_luba_cmd.qsize()
            else:
                s["q_info"] = p._queue_rx_info.qsize()
            s["rx_state"] = p._rx_state.name
    return s


def run_stacked(driver, seed, units, gen_factory, knobs=None, progress=None):
    """'Stacked' transport: the real packaged sequence runs through the real
    asyncio driver (run_sequence: lock, driver-emitted EnableDeviceType,
    send-twice flag) and a gateway model down to the unit models of busim.
    Returns (SeqRun-like object, RunRecord)."""
    from .busim import SeqRun
    kn = {"latency": "nominal"}
    kn.update(knobs or {})
    plan = {"engine": "drvsim", "driver": driver, "seed": seed, "knobs": kn, "deadline_s": 36000,
            "max_iterations": 3_000_000,
            "callers": [{"id": "A", "start_us": 0, "ops": [{"kind": "libseq", "gap_us": 0}]}]}

    async def libseq(world, drv, rec):
        rec.gen = gen_factory()
        return await drv.run_sequence(rec.gen, progress=(lambda p: None))

    rr = run(plan, hooks={"libseq": libseq, "units": units})
    rec = rr.ops["A.0"]
    sr = SeqRun()
    sr.status = {"ok": "return", "raised": "raise"}.get(rec.status, "cap")
    sr.value, sr.exc = rec.result, rec.exc
    sends = [s_ for s_ in rr.dev.sends if "value" in s_]
    sr.frames = [(s_["bits"], s_["value"]) for s_ in sends]
    sr.steps = len(sends)
    sr.commands = []
    return sr, rr
