"""syncsim: blocking drivers against fake peers with a virtual clock.

daliserver client (fake `socket` module), ATX LED DALI HAT (fake serial port
and `time`), and for C18 the legacy USB/Modbus drivers (fake backends).
No threads: blocking reads call into the peer model, which returns the next
reply or lets the virtual clock run to the read timeout.
"""
import copy
import types

import dali.driver.daliserver as dsmod
import dali.driver.atxled as atxmod

from . import cmds
from .core import EventLog, Violation, keyed_rng
from .runner import add_violation, new_result


class Clock:
    def __init__(self):
        self.t = 0.0

    def sleep(self, s):
        self.t += max(0.0, s)

    def time(self):
        return self.t

    monotonic = time


class SyncWorld:
    def __init__(self, seed):
        self.seed = seed
        self.clock = Clock()
        self.log = EventLog()
        self.probes = {}
        self.faults = {}

    def rng(self, *key):
        return keyed_rng(self.seed, *key)

    def probe(self, k, n=1):
        self.probes[k] = self.probes.get(k, 0) + n


# ---------------------------------------------------------------------------
# daliserver
class DaliServerModel:
    """TCP peer speaking the daliserver protocol: 4-byte request
    [2, 0, addr, cmd] -> 4-byte reply [2, status, value, 0]."""

    def __init__(self, world, outcome_of):
        self.world = world
        self.outcome_of = outcome_of       # (bits, value) -> outcome
        self.requests = []                 # raw messages received
        self.connections = 0
        self.closed = 0
        self.referee_errors = []
        self.fail = None                   # "send" | "recv": the connection breaks at the next such call

    def handle(self, msg):
        self.requests.append(bytes(msg))
        self.world.log.add(self.world.clock.t, "request", "daliserver", bytes(msg).hex())
        self.world.clock.sleep(0.03)
        if len(msg) != 4 or msg[0] != 2 or msg[1] != 0:
            self.referee_errors.append(("malformed-request", bytes(msg).hex()))
            return bytes([2, 255, 0, 0])
        value = (msg[2] << 8) | msg[3]
        o = self.outcome_of(16, value)
        if o[0] == "silent":
            return bytes([2, 0, 0, 0])
        if o[0] == "value":
            return bytes([2, 1, o[1], 0])
        return bytes([2, 255, 0, 0])


class FakeSocket:
    def __init__(self, model):
        self.model = model
        self.pending = b""
        self.is_closed = False
        model.connections += 1

    def send(self, data):
        if self.is_closed:
            raise OSError("socket closed")
        if self.model.fail == "send":
            self.model.fail = None
            self.model.world.probe("connection-reset-on-send")
            raise ConnectionResetError(104, "Connection reset by peer")
        self.pending += self.model.handle(bytes(data))
        return len(data)

    sendall = send

    def recv(self, n):
        if self.is_closed:
            raise OSError("socket closed")
        if self.model.fail == "recv":
            self.model.fail = None
            self.model.world.probe("connection-reset-on-recv")
            raise ConnectionResetError(104, "Connection reset by peer")
        out, self.pending = self.pending[:n], self.pending[n:]
        return out

    def close(self):
        if not self.is_closed:
            self.is_closed = True
            self.model.closed += 1


def fake_socket_module(model):
    m = types.SimpleNamespace()
    m.create_connection = lambda target, *a, **kw: FakeSocket(model)
    return m


# ---------------------------------------------------------------------------
# ATX LED DALI HAT
class AtxModel:
    """ASCII line protocol: h<hex4> / t<hex4> (16 bit, sent twice) / l<hex6>;
    one result line per transmission: 'N' (nothing received) or 'J<hex2>'."""

    def __init__(self, world, outcome_of):
        self.world = world
        self.outcome_of = outcome_of
        self.lines_in = []
        self.out = []            # queued reply lines (bytes)
        self.buf = b""
        self.referee_errors = []
        self.read_timeout = 0.2
        self.conflict = None     # set per operation: lines the hat emits around a collision

    @property
    def in_waiting(self):
        return sum(len(d) for d in self.out if not isinstance(d, tuple) or d[0] <= self.world.clock.t)

    def write(self, data):
        self.world.log.add(self.world.clock.t, "write", "atx", bytes(data).hex())
        self.buf += bytes(data)
        while b"\n" in self.buf:
            line, self.buf = self.buf.split(b"\n", 1)
            self.lines_in.append(line)
            self.on_line(line)
        return len(data)

    def on_line(self, line):
        try:
            txt = line.decode("ascii")
        except UnicodeDecodeError:
            self.referee_errors.append(("non-ascii", line.hex()))
            return
        if not txt or txt[0] not in "htl":
            self.referee_errors.append(("prefix", txt))
            return
        hexpart = txt[1:]
        want = 6 if txt[0] == "l" else 4
        if len(hexpart) != want or hexpart != hexpart.upper() or \
                any(c not in "0123456789ABCDEF" for c in hexpart):
            self.referee_errors.append(("hex", txt))
            return
        bits = 24 if txt[0] == "l" else 16
        value = int(hexpart, 16)
        o = self.outcome_of(bits, value)
        n = 2 if txt[0] == "t" else 1
        if self.conflict:
            # another bus master's frame collided with ours: the hat reports the conflict and goes on
            # reporting what it sees on the bus (that master's transaction) - each line within the
            # port timeout of the one before; the driver waits for the line to fall silent and sends again
            self.world.probe("atx-hat-conflict")
            t = self.world.clock.t
            for gap_ms, text in self.conflict:
                t += gap_ms / 1000.0
                self.out.append((t, (text + "\n").encode()))
            self.conflict = None
            return
        if o[0] == "mute":
            self.world.probe("atx-hat-mute")
            return                      # the hat says nothing at all: every read times out
        if o[0] == "busy":
            # the read budget is used up by lines about another bus master's frames
            self.world.probe("atx-hat-busy")
            for k_ in range(8):
                self.out.append(("H%04X\n" % ((0x1234 + 77 * k_) & 0xFFFF)).encode())
            return
        for i in range(n):
            if o[0] == "value":
                self.out.append(("J%02X\n" % o[1]).encode())
            elif o[0] == "spurious" and i == n - 1:
                self.out.append(("J%02X\n" % o[1]).encode())
            else:
                self.out.append(b"N\n")

    def read_until(self, term=b"\n"):
        if self.out and isinstance(self.out[0], tuple):
            wait = self.out[0][0] - self.world.clock.t
            if wait > self.read_timeout:
                self.world.clock.sleep(self.read_timeout)
                self.world.log.add(self.world.clock.t, "read-timeout", "atx", None)
                return b""
            self.world.clock.sleep(max(wait, 0.001))
            d = self.out.pop(0)[1]
            self.world.log.add(self.world.clock.t, "read", "atx", d.hex())
            return d
        if self.out:
            self.world.clock.sleep(0.03)
            d = self.out.pop(0)
            self.world.log.add(self.world.clock.t, "read", "atx", d.hex())
            return d
        self.world.clock.sleep(self.read_timeout)
        self.world.log.add(self.world.clock.t, "read-timeout", "atx", None)
        return b""

    def close(self):
        pass


def fake_serial_module(model):
    import serial as real
    m = types.SimpleNamespace()
    for k in ("PARITY_NONE", "STOPBITS_ONE", "EIGHTBITS"):
        setattr(m, k, getattr(real, k))
    m.Serial = lambda **kw: model
    return m


# ---------------------------------------------------------------------------
def gen_plan(r, eng, seed, prop):
    cats = ["plain16", "query16", "query16", "twice16", "dt_query", "dt_plain", "dt_twice"]
    if eng == "atx":
        cats += ["query24", "plain24", "twice24"]
    ops = []
    pool = list(range(1, 255))
    r.shuffle(pool)
    ends = [v for v in (0, 255) if r.random() < 0.6]     # the ends of the value range, drawn first
    r.shuffle(ends)
    pool.extend(ends)
    for _ in range(r.randrange(1, 7)):
        s = cmds.gen_cmd(r, cats)
        c = cmds.mk_cmd(s)
        o = ["silent"]
        if c.response is not None:
            x = r.random()
            if x < 0.6:
                o = ["value", pool.pop()]
            elif x < 0.75 and eng == "daliserver":
                o = ["error", pool.pop()]
        elif eng == "atx" and c.sendtwice and len(c.frame) == 16 and r.random() < 0.08:
            o = ["spurious", pool.pop()]
        ops.append({"cmd": s, "out": o})
    if eng == "daliserver" and ops and r.random() < 0.2:
        ops[-1]["conn_fault"] = r.choice(["send", "recv"])
    if eng == "atx":
        x = keyed_rng(seed, "plan", prop + "-conflict")
        for op in ops:
            c_ = cmds.mk_cmd(op["cmd"])
            if c_.sendtwice and len(c_.frame) == 16 and op["out"] == ["silent"] and x.random() < 0.15:
                # a send-twice command whose second transmission collides: one result line, then the conflict
                lines = [[x.choice([5, 20]), "N"], [x.choice([5, 20, 60]), "Z"]]
                for _ in range(x.randrange(0, 3)):
                    lines.append([x.choice([10, 50, 90, 150]), x.choice(["J%02X" % x.randrange(256), "N", "H%04X" % x.getrandbits(16)])])
                op["conflict"] = lines
            elif not c_.sendtwice and x.random() < 0.12:
                lines = []
                if not (len(c_.frame) == 16 and (c_.frame.as_integer >> 8) in (0xB1, 0xB3, 0xB5)) and x.random() < 0.5:
                    # the other master's frames are reported first, the conflict after some of the driver's reads are spent
                    for _ in range(x.randrange(1, 5)):
                        lines.append([x.choice([5, 20, 40]), "H%04X" % x.getrandbits(16)])
                lines.append([x.choice([5, 20, 60]), x.choice(["Z", "Z", "Z01"])])
                for _ in range(x.randrange(0, 4)):
                    lines.append([x.choice([10, 50, 90, 130, 150, 170]),
                                  x.choice(["J%02X" % x.randrange(256), "JFF", "J00", "N", "H%04X" % x.getrandbits(16)])])
                op["conflict"] = lines
    if eng == "atx" and ops and r.random() < 0.15:
        # no verdict line within the driver's read budget: nothing is known about the bus ('no answer' for a
        # query, None for a command) - last operation of the plan, what is left unread would reach a next one
        ops[-1]["out"] = [r.choice(["mute", "busy"])]
    return {"engine": "syncsim", "property": prop, "driver": eng, "seed": seed,
            "knobs": {"multi": r.random() < 0.5}, "ops": ops}


def shrink(plan):
    ops = plan["ops"]
    for i in range(len(ops)):
        if len(ops) > 1:
            p = copy.deepcopy(plan)
            del p["ops"][i]
            yield p
    for i, op in enumerate(ops):
        if op["out"] != ["silent"]:
            p = copy.deepcopy(plan)
            p["ops"][i]["out"] = ["silent"]
            yield p
    if plan["knobs"].get("multi"):
        p = copy.deepcopy(plan)
        p["knobs"]["multi"] = False
        yield p
    for i, op in enumerate(ops):
        if op.get("conflict"):
            p = copy.deepcopy(plan)
            del p["ops"][i]["conflict"]
            yield p
            for j in range(len(op["conflict"])):
                if op["conflict"][j][1].startswith("Z"):
                    continue
                p = copy.deepcopy(plan)
                del p["ops"][i]["conflict"][j]
                yield p


def execute(plan):
    """Run the ops; returns (world, model, results) where results[i] is
    ("ok", value) or ("raised", exc)."""
    world = SyncWorld(plan["seed"])
    cur = {"op": None}

    def outcome_of(bits, value):
        op = cur["op"]
        if op is not None and (op["cmd"][0], op["cmd"][1]) == (bits, value):
            return tuple(op["out"])
        return ("silent",)

    results = []
    drv = plan["driver"]
    if drv == "daliserver":
        model = DaliServerModel(world, outcome_of)
        saved = dsmod.socket
        dsmod.socket = fake_socket_module(model)
        try:
            d = dsmod.DaliServer("sim", 1, multiple_frames_per_connection=plan["knobs"].get("multi", False))
            with d:
                for op in plan["ops"]:
                    n0 = len(model.requests)
                    cur["op"] = op
                    model.fail = op.get("conn_fault")
                    try:
                        results.append(("ok", d.send(cmds.mk_cmd(op["cmd"])), n0))
                    except Exception as e:          # noqa: BLE001
                        results.append(("raised", e, n0))
        finally:
            dsmod.socket = saved
    elif drv == "atx":
        model = AtxModel(world, outcome_of)
        saved = (atxmod.serial, atxmod.time)
        atxmod.serial = fake_serial_module(model)
        atxmod.time = world.clock
        try:
            import logging
            lg = logging.getLogger("verif-atx")
            d = atxmod.SyncDaliHatDriver(port="/dev/ttySIM", LOG=lg)
            for op in plan["ops"]:
                n0 = len(model.lines_in)
                cur["op"] = op
                model.conflict = op.get("conflict")
                try:
                    results.append(("ok", d.send(cmds.mk_cmd(op["cmd"])), n0))
                except Exception as e:              # noqa: BLE001
                    results.append(("raised", e, n0))
        finally:
            atxmod.serial, atxmod.time = saved
    else:
        raise ValueError(drv)
    return world, model, results


def run_plan_c16(plan, prop, judge_response):
    world, model, results = execute(plan)
    res = new_result()
    drv = plan["driver"]
    all_values = {op["out"][1] for op in plan["ops"] if len(op["out"]) > 1}
    vs = []

    def V(clause, detail, site=None):
        vs.append(Violation(prop, clause, detail, driver=drv, site=site))

    kinds = set()
    for i, (op, (st, val, n0)) in enumerate(zip(plan["ops"], results)):
        cmd = cmds.mk_cmd(op["cmd"])
        out = op["out"]
        kinds.add(out[0])
        if drv == "daliserver" and len(cmd.frame) != 16:
            continue        # refusal of unsupported lengths is C18
        if op.get("conn_fault"):
            # the exchange with the server broke down: nothing is known about the bus
            if st != "raised":
                V("connection-loss-reported-as-answer", "op %d %s: the connection was reset on %s, send() returned %r" % (
                    i, cmd, op["conn_fault"], getattr(val, "raw_value", val)), site=op["conn_fault"])
            continue
        if st == "raised":
            V("send-raised", "op %d %s: %r" % (i, cmd, val), site=type(val).__name__)
            continue
        o = out if out[0] not in ("spurious", "mute", "busy") else ["silent"]
        judge_response(V, drv, "op%d" % i, cmd, o, val, False, all_values, False)
    for v in vs:
        add_violation(res, v)
    world.probe("sync-" + ("daliserver" if drv == "daliserver" else "atx"))
    res["digest"] = world.log.digest()
    res["shape"] = world.log.shape() + "|" + ",".join(sorted(kinds))
    res["vtime_s"] = world.clock.t
    res["events"] = len(world.log)
    res["nontrivial"] = len(kinds) >= 2
    res["probes"] = dict(world.probes)
    if res["violations"]:
        res["plan"] = plan
    res["sample"] = {"seed": plan["seed"], "driver": drv,
                     "ops": [(str(cmds.mk_cmd(o["cmd"])), o["out"]) for o in plan["ops"]]}
    return res


# ---------------------------------------------------------------------------
# C18: raw bytes each synchronous driver hands to its backend
class _Recorder:
    """Backend that records what is written and answers 'nothing'."""

    def __init__(self):
        self.written = []

    # USBBackend-like
    def write(self, data):
        self.written.append(bytes(data) if not isinstance(data, tuple) else data)
        return len(data)

    def read(self, *a, **kw):
        b = bytearray(64)
        b[0], b[1] = 0x12, 0x71          # "no response" in the legacy tridonic layout
        return bytes(b)

    def close(self):
        pass


class _FakeHidDevice:
    """hid.device stand-in for the legacy hasseb driver."""

    def __init__(self):
        self.written = []

    def open(self, *a):
        pass

    def open_path(self, *a):
        pass

    def write(self, data):
        self.written.append(bytes(data))
        return len(data)

    def read(self, n):
        # status frame: no answer, echoing nothing
        return [0xAA, 0x07, 0, 1, 0, 0, 0, 0, 0, 0][:n]


class _FakeModbus:
    def __init__(self):
        self.written = []
        self.counter = 0

    def write_regs(self, reg, values, unit=None):
        self.written.append((reg, tuple(values)))

    def read_regs(self, reg, cnt, unit=None):
        return [0] * cnt

    def close(self):
        pass


def make_legacy(kind, world):
    """-> (driver, recorder, written_getter)"""
    import time as _time
    if kind == "legacy-tridonic":
        import dali.driver.tridonic as m
        m.TridonicDALIUSBDriver._next_sn = 1          # class-level counter: reset per run
        d = object.__new__(m.SyncTridonicDALIUSBDriver)
        rec = _Recorder()
        d.backend = rec
        return d, rec, (lambda: rec.written), None
    if kind == "legacy-hasseb":
        import dali.driver.hasseb as m
        saved = (m.time, m.hid)
        m.time = world.clock
        dev = _FakeHidDevice()
        m.hid = types.SimpleNamespace(device=lambda: dev, enumerate=lambda *a: [])
        d = m.SyncHassebDALIUSBDriver()

        def restore():
            m.time, m.hid = saved
        return d, dev, (lambda: dev.written), restore
    if kind == "unipi":
        import dali.driver.unipi as m
        saved = m.sleep
        m.sleep = world.clock.sleep
        d = object.__new__(m.SyncUnipiDALIDriver)
        m.UnipiDALIDriver.__init__(d)
        rec = _FakeModbus()
        d.backend = rec
        d.bus, d._sendreg, d._recvreg, d._fereg = 0, 13, 1, 38

        def restore():
            m.sleep = saved
        return d, rec, (lambda: rec.written), restore
    raise ValueError(kind)


def c18_answer(v):
    return ((v ^ (v >> 8)) * 7 + 3) & 0xFF


def execute_c18(plan):
    """Send every command of the plan through a synchronous driver; returns
    (world, [(spec, status, exc_or_result, packets_written_by_this_send)])."""
    world = SyncWorld(plan["seed"])
    drv = plan["driver"]
    out = []
    restore = None
    if drv == "daliserver":
        def ds_outcome(b, v):
            # every query is answered with a byte that depends on its frame: a reply read for the
            # wrong request (one left over in a persistent connection) cannot go unnoticed
            return ("value", c18_answer(v)) if cmds.mk_cmd([b, v, 0]).response is not None else ("silent",)
        model = DaliServerModel(world, ds_outcome)
        saved = dsmod.socket
        dsmod.socket = fake_socket_module(model)
        restore = lambda: setattr(dsmod, "socket", saved)     # noqa: E731
        d = dsmod.DaliServer("sim", 1, multiple_frames_per_connection=plan["knobs"].get("multi", False))
        d.__enter__()
        written = lambda: model.requests                       # noqa: E731
    elif drv == "atx":
        model = AtxModel(world, lambda b, v: ("silent",))
        saved = (atxmod.serial, atxmod.time)
        atxmod.serial = fake_serial_module(model)
        atxmod.time = world.clock
        restore = lambda: (setattr(atxmod, "serial", saved[0]), setattr(atxmod, "time", saved[1]))   # noqa: E731
        import logging
        d = atxmod.SyncDaliHatDriver(port="/dev/ttySIM", LOG=logging.getLogger("verif-atx"))
        written = lambda: model.lines_in                       # noqa: E731
    else:
        d, rec, written, restore = make_legacy(drv, world)
    try:
        for spec in plan["cmds"]:
            n0 = len(written())
            cmd = cmds.mk_cmd(spec)
            try:
                r = d.send(cmd)
                st = ("ok", r)
            except Exception as e:              # noqa: BLE001 - judged
                st = ("raised", e)
            pk = list(written()[n0:])
            world.log.add(world.clock.t, "send", drv, (tuple(spec), st[0], [p.hex() if isinstance(p, (bytes, bytearray)) else p for p in pk]))
            out.append((spec, st[0], st[1], pk))
    finally:
        if restore:
            restore()
    return world, out
