"""Plan generation and shrinking shared by the drvsim checks."""
import copy

from . import cmds
from .core import keyed_rng

LATENCIES = ("fast", "nominal", "nominal", "slow", "adversarial")


def driver_cats(driver):
    """Command categories inside the documented envelope of each gateway."""
    if driver == "hasseb":
        # 16-bit only; its firmware table knows device-type-0 queries only
        return ["plain16", "query16", "twice16", "dt_plain", "dt_twice"]
    return list(cmds.CATEGORIES)


def gen_outcome(r, cmd, p_error=0.15):
    if cmd.response is None:
        return None
    x = r.random()
    if x < 0.3:
        return ["silent"]
    if x < 0.3 + p_error:
        return ["error", r.randrange(256)]
    return ["value", r.choice([0, 1, 254, 255, r.randrange(256), r.randrange(256)])]


def gen_knobs(r, driver, allow_batch=False):
    k = {"latency": r.choice(LATENCIES)}
    if driver == "tridonic":
        k["init_seq"] = r.choice([1, 2, 100, 250, 253, 254, 255, r.randrange(1, 256)])
        k["quirk"] = r.random() < 0.3
    elif driver == "hasseb":
        k["idle_spam"] = r.random() < 0.4
    else:
        # "batch": a USB-serial latency timer hands several messages to one
        # data_received() call and adds up to 16 ms - only for checks whose
        # oracles take the real arrival times into account
        k["chunking"] = r.choice(["whole", "bytes", "random", "batch"] if allow_batch
                                 else ["whole", "bytes", "random"])
        if driver == "luba":
            k["accept_msg"] = r.random() < 0.5
    if driver in ("tridonic", "hasseb") and r.random() < 0.3:
        # the host does not get round to reading for a while: reports pile up and
        # are then read back to back (one per loop iteration)
        k["stalls"] = sorted([r.choice([0, 5000, 20000, 60000, 150000, r.randrange(0, 500000)]),
                              r.choice([2000, 10000, 30000, 60000])] for _ in range(r.randrange(1, 3)))
    # which interpreter's asyncio.wait_for the driver sees (sim/legacy_asyncio.py)
    k["wait_for"] = "py38-311" if r.random() < 0.25 else "native"
    return k


def gen_bus_status(r, driver, p=0.15):
    """Bus status reports the Tridonic gateway sends unasked (see drvsim): [[t_us, status code]]."""
    if driver != "tridonic" or r.random() >= p:
        return []
    return sorted([r.choice([500, 5000, 12000, 25000, 40000, 70000, 150000, r.randrange(0, 400000)]),
                   r.choice([1, 2, 4, 4, 5, 6, 6, 0, 7])] for _ in range(r.randrange(1, 4)))


def add_out(outs, spec, out):
    if out is not None:
        outs["%d:%d" % (spec[0], spec[1])] = out


CANCEL_AFTER = [0, 1, 500, 5000, 20000, 40000, 90000]


def _add_cancel(r, op):
    """Cancellation after a delay - or hooked to the event log: in the loop iteration after the n-th
    event from the operation's start, i.e. right behind whatever that event delivered (a reply that
    has arrived but whose waiter has not run yet)."""
    if r.random() < 0.3:
        op["cancel_at_event"] = r.randrange(1, 14)
    else:
        op["cancel_after_us"] = r.choice(CANCEL_AFTER + [r.randrange(0, 250000)])


def gen_send_op(r, driver, cats=None, p_error=0.15, allow_cancel=False, p_unsupported=0.0):
    if p_unsupported and driver in ("luba", "sci") and r.random() < p_unsupported:
        # the serial gateways: no retry option, the refusal is a ValueError of the protocol layer
        bits = r.choice([8, 25, 32, 17] if driver == "luba" else [25, 32, 17, 1])
        return {"kind": "send", "cmd": [bits, r.getrandbits(bits), 0], "outs": {}, "unsupported": True,
                "gap_us": r.choice([0, 0, 50, 1000])}
    if p_unsupported and driver in ("tridonic", "hasseb") and r.random() < p_unsupported:
        # a frame length the gateway cannot carry, with every form of the exceptions option:
        # it has to be refused at once, whatever the retry policy
        bits = r.choice([24, 24, 8] if driver == "hasseb" else [8, 25, 32])
        return {"kind": "send", "cmd": [bits, r.getrandbits(bits), 0], "outs": {}, "unsupported": True,
                "exceptions": r.choice([None, True, False, False]), "gap_us": r.choice([0, 0, 50, 1000])}
    spec = cmds.gen_cmd(r, cats or driver_cats(driver))
    outs = {}
    add_out(outs, spec, gen_outcome(r, cmds.mk_cmd(spec), p_error))
    op = {"kind": "send", "cmd": spec, "outs": outs,
          "gap_us": r.choice([0, 0, 50, 1000, 20000])}
    if allow_cancel and r.random() < 0.15:
        _add_cancel(r, op)
    return op


def gen_parallel_op(r, driver, cats=None, p_error=0.15):
    """Two or three sends issued concurrently under one explicitly held
    transaction lock (what the Tridonic command semaphore exists for).
    Commands without device type only: two concurrent in_transaction sends
    would interleave their own EnableDeviceType prefixes."""
    cs = [c for c in (cats or driver_cats(driver)) if not c.startswith("dt_")]
    specs, outs = [], {}
    for _ in range(r.randrange(2, 4)):
        for _try in range(20):
            s = cmds.gen_cmd(r, cs)
            if s not in specs:
                break
        specs.append(s)
        add_out(outs, s, gen_outcome(r, cmds.mk_cmd(s), p_error))
    return {"kind": "parallel", "cmds": specs, "outs": outs, "gap_us": r.choice([0, 0, 50, 1000])}


def gen_locked_op(r, driver, cats=None, p_error=0.15, allow_cancel=False):
    n = r.randrange(2, 4)
    specs, outs = [], {}
    for _ in range(n):
        s = cmds.gen_cmd(r, cats or driver_cats(driver))
        specs.append(s)
        add_out(outs, s, gen_outcome(r, cmds.mk_cmd(s), p_error))
    op = {"kind": "locked", "cmds": specs, "outs": outs,
          "gap_us": r.choice([0, 0, 50, 1000])}
    if allow_cancel and r.random() < 0.15:
        _add_cancel(r, op)
    return op


def gen_seq_op(r, driver, cats=None, p_error=0.15, allow_raise=True,
               allow_cancel=True):
    n = r.randrange(1, 6)
    items, outs = [], {}
    for _ in range(n):
        x = r.random()
        if x < 0.15:
            items.append(["sleep", r.choice([0, 100, 5000, 100000])])
        elif x < 0.25:
            items.append(["progress"])
        else:
            s = cmds.gen_cmd(r, cats or driver_cats(driver))
            prev = [it[1] for it in items if it[0] == "cmd"]
            if prev and prev[-1][2] and prev[-1][0] == 16 and r.random() < 0.4:
                # a run of application extended commands of one device type (what the library's own
                # sequences do): every one of them needs its own EnableDeviceType in front
                s = [16, (r.choice(cmds._ADDR16) << 8) | (prev[-1][1] & 0xFF), prev[-1][2]]
                if cmds.mk_cmd(s).devicetype != prev[-1][2]:
                    s = list(prev[-1])
            items.append(["cmd", s])
            add_out(outs, s, gen_outcome(r, cmds.mk_cmd(s), p_error))
    op = {"kind": "seq", "items": items, "outs": outs,
          "gap_us": r.choice([0, 0, 50, 1000])}
    x = r.random()
    if allow_raise and r.random() < 0.06:
        # a sequence that yields a clean-up command from its finally clause:
        # close() on it raises RuntimeError('generator ignored GeneratorExit')
        op["bad_close"] = True
    nprog = sum(1 for it in items if it[0] == "progress")
    if allow_raise and nprog and r.random() < 0.3:
        # the caller's progress callback raises at its k-th invocation
        op["progress_raise_at"] = r.randrange(nprog)
    elif allow_raise and x < 0.2:
        op["raise_at"] = r.randrange(0, len(items) + 1)
    elif allow_cancel and x < 0.4:
        _add_cancel(r, op)
    return op


def gen_callers(r, driver, ncallers, maxops, mix=(0.45, 0.15, 0.4), **kw):
    callers = []
    # exact ties on purpose: creation order then decides
    starts = [r.choice([0, 0, 0, 1, 100, 3000, 17000, 60000]) for _ in range(ncallers)]
    for ci in range(ncallers):
        ops = []
        for _ in range(r.randrange(1, maxops + 1)):
            x = r.random()
            # (hid drivers only: the serial drivers document in_transaction as internal to
            # run_sequence and have no provision for two commands in flight)
            if kw.get("connect_again") and r.random() < kw["connect_again"]:
                # an "ensure connected" helper of the application: connect() on a driver that is connected
                ops.append({"kind": "connect", "outs": {}, "gap_us": r.choice([0, 0, 50, 1000])})
            elif kw.get("parallel") and driver in ("tridonic", "hasseb") and r.random() < kw["parallel"]:
                ops.append(gen_parallel_op(r, driver, kw.get("cats"), kw.get("p_error", 0.15)))
            elif x < mix[0]:
                ops.append(gen_send_op(r, driver, kw.get("cats"), kw.get("p_error", 0.15),
                                       kw.get("cancel_sends", False), kw.get("unsupported", 0.0)))
                if kw.get("repeat_object") and r.random() < kw["repeat_object"] and not ops[-1].get("unsupported"):
                    ops[-1]["same_object"] = True
                    for _ in range(r.randrange(1, 3)):
                        ops.append(copy.deepcopy(ops[-1]))
            elif x < mix[0] + mix[1]:
                ops.append(gen_locked_op(r, driver, kw.get("cats"), kw.get("p_error", 0.15),
                                         kw.get("cancel_sends", False)))
            else:
                ops.append(gen_seq_op(r, driver, kw.get("cats"), kw.get("p_error", 0.15),
                                      kw.get("allow_raise", True),
                                      kw.get("allow_cancel", True)))
        callers.append({"id": "ABCDEFGH"[ci], "start_us": starts[ci], "ops": ops})
        if ci and kw.get("start_on_event") and r.random() < kw["start_on_event"]:
            callers[-1]["start_at_event"] = r.randrange(1, 30)
    return callers


# ---------------------------------------------------------------------------
def shrink(plan):
    """Candidate simplifications, most aggressive first."""
    cs = plan["callers"]
    for i in range(len(cs)):
        if len(cs) > 1:
            p = copy.deepcopy(plan)
            del p["callers"][i]
            yield p
    for i, c in enumerate(cs):
        for j in range(len(c["ops"])):
            if len(c["ops"]) > 1:
                p = copy.deepcopy(plan)
                del p["callers"][i]["ops"][j]
                yield p
    if plan.get("second_line"):
        p = copy.deepcopy(plan)
        del p["second_line"]
        yield p
        if "lose_at_us" in plan["second_line"]:
            p = copy.deepcopy(plan)
            del p["second_line"]["lose_at_us"]
            yield p
        for i in range(len(plan["second_line"]["sends"])):
            if len(plan["second_line"]["sends"]) > 1:
                p = copy.deepcopy(plan)
                del p["second_line"]["sends"][i]
                yield p
    for key in ("traffic", "faults", "subs", "bus_status"):
        lst = plan.get(key) or []
        for i in range(len(lst)):
            p = copy.deepcopy(plan)
            del p[key][i]
            yield p
    for i, c in enumerate(cs):
        for j, op in enumerate(c["ops"]):
            for lk in ("items", "cmds"):
                lst = op.get(lk)
                if lst and len(lst) > 1:
                    for k in range(len(lst)):
                        p = copy.deepcopy(plan)
                        del p["callers"][i]["ops"][j][lk][k]
                        ra = p["callers"][i]["ops"][j].get("raise_at")
                        if ra is not None and ra > k:
                            p["callers"][i]["ops"][j]["raise_at"] = ra - 1
                        pra = p["callers"][i]["ops"][j].get("progress_raise_at")
                        if pra is not None and lk == "items":
                            np_ = sum(1 for it in p["callers"][i]["ops"][j]["items"] if it[0] == "progress")
                            if pra >= np_:
                                continue
                        yield p
            for fld in ("raise_at", "cancel_after_us", "cancel_at_event", "timeout_us", "bad_close", "progress_raise_at", "exceptions"):
                if op.get(fld) is not None:
                    p = copy.deepcopy(plan)
                    del p["callers"][i]["ops"][j][fld]
                    yield p
            if op.get("gap_us"):
                p = copy.deepcopy(plan)
                p["callers"][i]["ops"][j]["gap_us"] = 0
                yield p
            if op.get("outs"):
                for k in list(op["outs"]):
                    p = copy.deepcopy(plan)
                    del p["callers"][i]["ops"][j]["outs"][k]
                    yield p
        if c.get("start_us"):
            p = copy.deepcopy(plan)
            p["callers"][i]["start_us"] = 0
            yield p
        if c.get("start_at_event") is not None:
            p = copy.deepcopy(plan)
            del p["callers"][i]["start_at_event"]
            yield p
    kn = plan["knobs"]
    for k, simple in (("latency", "nominal"), ("quirk", False), ("idle_spam", False),
                      ("accept_msg", False), ("chunking", "whole"),
                      ("answer_mode", "intime"), ("init_seq", 1), ("wait_for", "native"), ("stalls", [])):
        if k in kn and kn[k] != simple:
            p = copy.deepcopy(plan)
            p["knobs"][k] = simple
            yield p


def gen_second_line(r, lose=True):
    """Traffic for a second Tridonic gateway / driver object in the same process."""
    sends = []
    pool = list(range(1, 255))
    r.shuffle(pool)
    for _ in range(r.randrange(2, 7)):
        sends.append([cmds.gen_cmd(r, ["query16"]), pool.pop(), r.choice([0, 0, 1000, 20000, 60000])])
    sl = {"start_us": r.choice([0, 0, 0, 1000, 30000]), "sends": sends}
    if lose and r.random() < 0.5:
        sl["lose_at_us"] = r.choice([0, 10000, 20000, 35000, 60000, r.randrange(0, 200000)])
        sl["return_after_us"] = r.choice([60000, 200000])
    return sl


def rng_for(seed, prop):
    return keyed_rng(seed, "plan", prop)
