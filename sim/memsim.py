"""Helpers shared by C09 / C10: build memory-bank models from the library's
bank declarations (cell types only - the layout itself is C11's business) and
seeded images."""
from dali.memory import diagnostics, energy, info, location, maintenance, oem

from . import busim

BANKS = {
    "0": info.BANK_0, "0-legacy": info.BANK_0_legacy, "1": oem.BANK_1,
    "202": energy.BANK_202, "203": energy.BANK_203, "204": energy.BANK_204,
    "205": diagnostics.BANK_205, "206": diagnostics.BANK_206, "207": maintenance.BANK_207,
}
BANK_KEYS = list(BANKS)


def values_of(key):
    b = BANKS[key]
    vals = list(b.values)
    return vals


def all_values():
    out = []
    for k in BANK_KEYS:
        for v in BANKS[k].values:
            out.append((k, v))
    return out


ALL_VALUES = all_values()


def is_writable(v):
    return all(l.type_ is not None and l.type_.name in busim.WRITABLE for l in v.locations)


WRITABLE_VALUES = [(k, v) for k, v in ALL_VALUES if is_writable(v)]
READONLY_VALUES = [(k, v) for k, v in ALL_VALUES if not is_writable(v)]


def cell_types(bank):
    t = {}
    for addr, ent in bank.locations.items():
        if ent:
            t[addr] = ent.memory_location.type_.name if ent.memory_location.type_ else None
    return t


def make_model(key, r, last=None, holes=(), lock=0xFF, pattern="random", unlock_value=0x55):
    """A MemBank model for library bank `key` with a seeded image."""
    lib = BANKS[key]
    decl_max = max(l.address for v in lib.values for l in v.locations)
    if last is None:
        last = decl_max
    cells = [None] * 256
    for a in range(0, 256):
        if pattern == "random":
            cells[a] = r.randrange(256)
        elif pattern == "ff":
            cells[a] = 0xFF
        elif pattern == "fe":
            cells[a] = 0xFE if a % 2 else 0xFF
        elif pattern == "zero":
            cells[a] = 0
        else:
            cells[a] = r.choice([0, 1, 0x7F, 0x80, 0xFE, 0xFF, r.randrange(256)])
    cells[0] = last
    cells[1] = r.choice([None, r.randrange(256)])
    if lib.address != 0:
        cells[2] = lock if (lib.has_lock or lib.has_latch) else r.randrange(256)
    for h in holes:
        if h > 2 or (h == 2 and lib.address == 0):
            cells[h] = None
    cells[255] = None
    m = busim.MemBank(lib.address, cells, types=cell_types(lib), has_lock=lib.has_lock,
                      has_latch=lib.has_latch, unlock_value=unlock_value)
    return m


def addr_obj(kind, short):
    from dali.address import DeviceShort, GearShort
    return GearShort(short) if kind == "gear" else DeviceShort(short)


def make_unit(kind, short, banks):
    if kind == "gear":
        return busim.Gear(short=short, banks=banks, name="U")
    return busim.Device(short=short, banks=banks, name="U")
