"""Helpers shared by C09 / C10: build memory-bank models from the library's
bank declarations (cell types only - the layout itself is C11's business) and
seeded images."""
from dali.memory import diagnostics, energy, info, location, maintenance, oem

from . import busim

BANKS = {
    "0": info.BANK_0, "0-legacy": info.BANK_0_legacy, "1": oem.BANK_1,
    "202": energy.BANK_202, "203": energy.BANK_203, "204": energy.BANK_204,
    "205": diagnostics.BANK_205, "206": diagnostics.BANK_206, "207": maintenance.BANK_207,
}
BANK_KEYS = list(BANKS)


def values_of(key):
    b = BANKS[key]
    vals = list(b.values)
    return vals


def all_values():
    out = []
    for k in BANK_KEYS:
        for v in BANKS[k].values:
            out.append((k, v))
    return out


ALL_VALUES = all_values()


def is_writable(v):
    return all(l.type_ is not None and l.type_.name in busim.WRITABLE for l in v.locations)


WRITABLE_VALUES = [(k, v) for k, v in ALL_VALUES if is_writable(v)]
READONLY_VALUES = [(k, v) for k, v in ALL_VALUES if not is_writable(v)]


def cell_types(bank):
    t = {}
    for addr, ent in bank.locations.items():
        if ent:
            t[addr] = ent.memory_location.type_.name if ent.memory_location.type_ else None
    return t


# which banks have a lock byte / can be latched: IEC 62386-102 (bank 1), DiiA part 252 (202-204: latch),
# part 253 (205, 206: lock and latch; 207: lock) - not read from the library's declaration
SPEC_HAS_LOCK = {1, 205, 206, 207}
SPEC_HAS_LATCH = {202, 203, 204, 205, 206}


def make_model(key, r, last=None, holes=(), lock=0xFF, pattern="random", unlock_value=0x55):
    """A MemBank model for library bank `key` with a seeded image."""
    lib = BANKS[key]
    decl_max = max(l.address for v in lib.values for l in v.locations)
    if last is None:
        last = decl_max
    cells = [None] * 256
    for a in range(0, 256):
        if pattern == "random":
            cells[a] = r.randrange(256)
        elif pattern == "ff":
            cells[a] = 0xFF
        elif pattern == "fe":
            cells[a] = 0xFE if a % 2 else 0xFF
        elif pattern == "zero":
            cells[a] = 0
        else:
            cells[a] = r.choice([0, 1, 0x7F, 0x80, 0xFE, 0xFF, r.randrange(256)])
    if pattern == "edges":
        # every declared value sits on one of its own boundaries
        for a in range(256):
            cells[a] = r.randrange(256)
        for v in lib.values:
            locs = [l.address for l in v.locations]
            n = len(locs)
            scaled = hasattr(v, "mask_length_adjust")
            nb = n - 1 if scaled else n
            top = (1 << (8 * nb)) - 1
            cands = [top, top - 1, top >> 1, (top >> 1) - 1, (top >> 1) + 1, 0, 1, r.getrandbits(8 * nb)]
            for lim in (getattr(v, "min_value", None), getattr(v, "max_value", None)):
                if lim is not None:
                    cands += [lim & top, (lim + 1) & top, (lim - 1) & top]
            body = r.choice(cands).to_bytes(nb, "big") if nb else b""
            if hasattr(v, "value_to_raw") and v.__mro__[1].__name__ == "StringValue" or "StringValue" in [c.__name__ for c in v.__mro__]:
                # strings: filling the field exactly, one short of it, empty, a non-ASCII byte at either end
                txt = bytes(r.randrange(0x20, 0x7F) for _ in range(n))
                body = r.choice([txt, txt[:-1] + b"\x00", b"\x00" + txt[1:], txt[:-1] + b"\xe9", b"\xe9" + txt[1:],
                                 txt[:n // 2] + b"\x00" + txt[n // 2 + 1:]])
            if scaled:
                body = bytes([r.choice([0xF9, 0xFA, 0xFB, 0xFF, 0, 1, 5, 6, 6, 7, 0x80, 0x7F])]) + body
            for a, b in zip(locs, body):
                cells[a] = b
    cells[0] = last
    cells[1] = r.choice([None, r.randrange(256)])
    if lib.address != 0:
        cells[2] = lock if (lib.address in SPEC_HAS_LOCK or lib.address in SPEC_HAS_LATCH) else r.randrange(256)
    for h in holes:
        if h > 2 or (h == 2 and lib.address == 0):
            cells[h] = None
    cells[255] = None
    m = busim.MemBank(lib.address, cells, types=cell_types(lib), has_lock=lib.address in SPEC_HAS_LOCK,
                      has_latch=lib.address in SPEC_HAS_LATCH, unlock_value=unlock_value)
    return m


def addr_obj(kind, short):
    from dali.address import DeviceShort, GearShort
    return GearShort(short) if kind == "gear" else DeviceShort(short)


def make_unit(kind, short, banks):
    if kind == "gear":
        return busim.Gear(short=short, banks=banks, name="U")
    return busim.Device(short=short, banks=banks, name="U")


# ---------------------------------------------------------------------------
def ref_interpret(v, raw):
    """Class-level interpretation rules of IEC 62386-102 / DiiA parts 251-253,
    written out independently of the library's check_raw / raw_to_value:
    scale byte (signed power of ten, -6..6) in front of scaled values, MASK =
    all ones and TMASK = all ones minus one (positive maximum for signed
    values) where the value declares them, declared range limits -> Invalid,
    numbers MSB first, temperatures offset by 60, one-byte versions major<<2 |
    minor with 0xFF 'not implemented', two-byte versions major.minor, booleans
    0 / 1, strings ASCII up to the first NUL.  The per-value parameters
    (signedness, which flags exist, limits, fixed scale) are the declaration's."""
    from decimal import Decimal
    from dali.memory import location as L
    from dali.memory.energy import ScaledNumericValue
    raw = bytes(raw)
    # two values of DiiA part 251 (bank 1) with rules of their own
    if v.name == "CCT" and raw == b"\xff\xfe":
        return "Part 209 implemented"
    if v.name == "LightDistributionType":
        if raw[0] == 0xFF:
            return L.FlagValue.MASK
        return (["not specified", "Type I", "Type II", "Type III", "Type IV", "Type V"] + ["reserved"] * 249)[raw[0]]
    body = raw
    exp10 = None
    if issubclass(v, ScaledNumericValue):
        exp10 = raw[0] - 256 if raw[0] >= 0x80 else raw[0]
        if not -6 <= exp10 <= 6:
            return L.FlagValue.Invalid
        body = raw[1:]
    nb = len(body)
    unsigned = int.from_bytes(body, "big")
    top = (1 << (8 * nb - 1)) - 1 if v.signed else (1 << (8 * nb)) - 1
    if v.mask_supported and unsigned == top:
        return L.FlagValue.MASK
    if v.tmask_supported and unsigned == top - 1:
        return L.FlagValue.TMASK
    if issubclass(v, L.BinaryValue):
        if raw[0] not in (0, 1):
            return L.FlagValue.Invalid
        return raw[0] == 1
    if issubclass(v, L.StringValue):
        txt = raw.split(b"\x00")[0]
        if any(c >= 0x80 for c in txt):
            return L.FlagValue.Invalid
        return txt.decode("ascii")
    if not issubclass(v, L.NumericValue):
        return raw
    number = unsigned
    if v.signed and nb and body[0] & 0x80:
        number = unsigned - (1 << (8 * nb))
    if v.min_value is not None and number < v.min_value:
        return L.FlagValue.Invalid
    if v.max_value is not None and number > v.max_value:
        return L.FlagValue.Invalid
    if exp10 is not None:
        return unsigned * (Decimal(10) ** exp10)
    if issubclass(v, L.TemperatureValue):
        return unsigned - 60
    if issubclass(v, L.VersionNumberValue):
        if nb == 1:
            return "not implemented" if unsigned == 0xFF else "%d.%d" % (unsigned >> 2, unsigned & 3)
        return ".".join(str(b) for b in body)
    if issubclass(v, L.FixedScaleNumericValue):
        return v.scaling_factor * number
    return number
