"""Keep runs independent of each other inside one worker process.

One seed is one repeatable execution only if nothing survives from the run
before it.  The library under test lives in the worker for thousands of runs,
so module-level containers and function caches of the `dali` package are
snapshotted once and put back before every run (a change a run made to them is
counted as probe `module-state-mutated`).  State that a *history of calls*
builds up is explored inside a run instead - see the `prelude` / `second run`
elements of the sequence plans."""
import copy
import sys

_SNAP = None
_CACHES = None
mutations = 0


def _scan():
    global _SNAP, _CACHES
    _SNAP, _CACHES = [], []
    for name, m in sorted(sys.modules.items()):
        if m is None or not (name == "dali" or name.startswith("dali.")):
            continue
        for attr, val in sorted(vars(m).items()):
            if attr.startswith("__"):
                continue
            if isinstance(val, (list, dict, set)) and len(val) <= 4096:
                try:
                    cp = copy.deepcopy(val)
                except Exception:                       # noqa: BLE001
                    cp = copy.copy(val)
                _SNAP.append((val, cp))
            elif hasattr(val, "cache_clear") and callable(getattr(val, "cache_clear")):
                _CACHES.append(val)
            elif isinstance(val, type) and getattr(val, "__module__", None) == name:
                _scan_class(val, 0)


def _scan_class(cls, depth):
    """Class attributes are shared by every instance - of this run and of the next."""
    for a2, v2 in list(vars(cls).items()):
        if a2.startswith("__"):
            continue
        f = getattr(v2, "__func__", v2)
        if hasattr(f, "cache_clear"):
            _CACHES.append(f)
        elif isinstance(v2, (list, dict, set)) and len(v2) <= 4096:
            try:
                cp = copy.deepcopy(v2)
            except Exception:                           # noqa: BLE001
                cp = copy.copy(v2)
            _SNAP.append((v2, cp))
        elif isinstance(v2, type) and depth < 2 and v2.__qualname__.startswith(cls.__qualname__ + "."):
            _scan_class(v2, depth + 1)


def restore():
    """Put module-level state of the dali package back to what it was when the
    worker first ran something.  Cheap: a handful of small comparisons."""
    global mutations
    if _SNAP is None:
        _scan()
        return
    for obj, cp in _SNAP:
        if obj != cp:
            mutations += 1
            fresh = copy.deepcopy(cp)
            if isinstance(obj, list):
                obj[:] = fresh
            else:
                obj.clear()
                obj.update(fresh)
    for c in _CACHES:
        c.cache_clear()


def wrap(fn):
    def run_plan_hermetic(plan, *a, **kw):
        restore()
        return fn(plan, *a, **kw)
    run_plan_hermetic.__wrapped__ = fn
    return run_plan_hermetic
