"""Generic seeded-search runner: workers, aggregation, minimisation, replay,
evidence, known-findings.

A check module provides

    PROP            "C15"
    LEVEL           "exploration" | "fault_enumeration"
    TIERS           {"quick": {"seeds": N, "chunk": k, "wall_s": cap}, "thorough": {...}}
    run_seed(seed, tier)  -> list of result dicts (see new_result())
    run_plan(plan)        -> one result dict            (used by replay / shrink)
    shrink(plan)          -> iterator of simpler candidate plans
    RULE, ASSUMPTIONS, COMPONENTS   evidence texts

Exit codes: 0 held (known findings printed), 1 violation (VIOLATION line),
2 harness error (never reported as a violation, never 0).
"""
import collections
import concurrent.futures as cf
import faulthandler
import json
import multiprocessing
import os
import signal
import subprocess
import sys
import time
import traceback

from .core import HarnessError, sig_key, jsonable

VERIF = os.path.dirname(os.path.dirname(os.path.abspath(__file__)))
REPO = os.environ.get("VERIF_REPO", "/repo")
EVIDENCE_DIR = os.path.join(VERIF, "evidence")
REPLAY_DIR = os.path.join(EVIDENCE_DIR, "replays")
FINDINGS_FILE = os.path.join(VERIF, "known_findings.json")


# ---------------------------------------------------------------------------
def new_result(plan=None):
    return {"plan": plan, "violations": [], "digest": "", "shape": "",
            "nontrivial": False, "faults": {}, "probes": {}, "vtime_s": 0.0,
            "events": 0, "states": [], "sample": None}


def add_violation(res, v):
    res["violations"].append({"sig": v.sig, "detail": v.detail})


def bump(d, k, n=1):
    d[k] = d.get(k, 0) + n


# ---------------------------------------------------------------------------
class _WallTimeout(BaseException):
    pass


def _alarm(signum, frame):
    raise _WallTimeout()


def _work_chunk(args):
    modname, seeds, tier, per_run_wall = args
    import importlib
    mod = importlib.import_module(modname)
    agg = {"evals": 0, "shapes": set(), "faults": {}, "probes": {},
           "vtime_s": 0.0, "events": 0, "states": set(), "viol": {},
           "digests": {}, "samples": [], "harness": None, "nviol_runs": 0}
    signal.signal(signal.SIGALRM, _alarm)
    for seed in seeds:
        try:
            signal.setitimer(signal.ITIMER_REAL, per_run_wall)
            try:
                results = mod.run_seed(seed, tier)
            finally:
                signal.setitimer(signal.ITIMER_REAL, 0)
        except _WallTimeout:
            agg["harness"] = ("wall-timeout", seed,
                              "run exceeded %ss wall" % per_run_wall)
            break
        except BaseException:
            agg["harness"] = ("exception", seed, traceback.format_exc())
            break
        first = True
        for r in results:
            agg["evals"] += 1
            if r["nontrivial"]:
                agg["shapes"].add(r["shape"])
            for k, n in r["faults"].items():
                bump(agg["faults"], k, n)
            for k, n in r["probes"].items():
                bump(agg["probes"], k, n)
            agg["vtime_s"] += r["vtime_s"]
            agg["events"] += r["events"]
            agg["states"].update(r["states"])
            if first:
                agg["digests"][seed] = r["digest"]
                first = False
            if r["violations"]:
                agg["nviol_runs"] += 1
                for v in r["violations"]:
                    k = sig_key(v["sig"])
                    lst = agg["viol"].setdefault(k, [])
                    if len(lst) < 3:
                        lst.append({"seed": seed, "sig": v["sig"],
                                    "detail": v["detail"], "plan": r["plan"]})
            if r.get("sample") is not None and len(agg["samples"]) < 2:
                agg["samples"].append(r["sample"])
    from . import hermetic
    m0 = hermetic.mutations
    hermetic.restore()
    if hermetic.mutations or hermetic.mutations != m0:
        bump(agg["probes"], "module-state-mutated-by-a-run", hermetic.mutations)
        hermetic.mutations = 0
    agg["shapes"] = list(agg["shapes"])
    agg["states"] = list(agg["states"])
    return agg


# ---------------------------------------------------------------------------
def load_findings():
    try:
        with open(FINDINGS_FILE) as f:
            data = json.load(f)
    except FileNotFoundError:
        return []
    return data.get("findings", [])


def known_for(findings, prop):
    out = {}
    for f in findings:
        if f.get("status") == "known" and f.get("property") == prop:
            s = dict(f["signature"])
            s["property"] = prop
            out[sig_key(s)] = f
    return out


def repo_head():
    try:
        return subprocess.run(["git", "-C", REPO, "rev-parse", "HEAD"],
                              capture_output=True, text=True,
                              timeout=20).stdout.strip()
    except Exception:
        return "unknown"


def assert_repo():
    import dali
    p = os.path.realpath(dali.__file__)
    if not p.startswith(os.path.realpath(REPO) + os.sep):
        raise HarnessError("dali imported from %s, not from %s" % (p, REPO))


def ensure_hashseed():
    """Re-exec with PYTHONHASHSEED=0 so set/dict iteration over strings cannot
    differ between runs."""
    if os.environ.get("PYTHONHASHSEED") != "0":
        env = dict(os.environ)
        env["PYTHONHASHSEED"] = "0"
        os.execve(sys.executable, [sys.executable] + sys.argv, env)


# ---------------------------------------------------------------------------
def minimise(mod, plan, key, budget_s=60.0, max_tries=1500):
    """Greedy delta debugging: keep a candidate iff it still violates with the
    same signature key."""
    t0 = time.time()
    tries = 0
    improved = True
    while improved and time.time() - t0 < budget_s and tries < max_tries:
        improved = False
        for cand in mod.shrink(plan):
            tries += 1
            if time.time() - t0 > budget_s or tries > max_tries:
                break
            try:
                r = mod.run_plan(cand)
            except BaseException:
                continue
            if any(sig_key(v["sig"]) == key for v in r["violations"]):
                plan = cand
                improved = True
                break
    return plan, tries


def write_replay(mod, prop, seed, plan, key):
    os.makedirs(REPLAY_DIR, exist_ok=True)
    r = mod.run_plan(plan)
    vs = [v for v in r["violations"] if sig_key(v["sig"]) == key]
    if not vs:
        raise HarnessError("minimised plan does not reproduce " + key)
    path = os.path.join(REPLAY_DIR, "%s-%d.json" % (prop, seed))
    n = 1
    while os.path.exists(path):
        path = os.path.join(REPLAY_DIR, "%s-%d-%d.json" % (prop, seed, n))
        n += 1
    with open(path, "w") as f:
        json.dump({"property": prop, "seed": seed, "plan": plan,
                   "signature": vs[0]["sig"], "detail": vs[0]["detail"],
                   "event_digest": r["digest"], "repo_head": repo_head(),
                   "created_by": "sim.runner"}, f, indent=1, sort_keys=True)
    return path


def do_replay(mod, path):
    with open(path) as f:
        rep = json.load(f)
    r = mod.run_plan(rep["plan"])
    want = sig_key(rep["signature"])
    got = [v for v in r["violations"] if sig_key(v["sig"]) == want]
    print("replay %s: digest %s (recorded %s)" % (
        path, r["digest"], rep.get("event_digest")))
    for v in r["violations"]:
        print("  violation: %s :: %s" % (sig_key(v["sig"]), v["detail"]))
    if got:
        same = r["digest"] == rep.get("event_digest")
        print("REPRODUCED signature=%s digest_match=%s" % (want, same))
        print("VIOLATION property=%s replay=%s" % (rep["property"], path))
        return 1
    print("NOT-REPRODUCED (no violation with the recorded signature)")
    return 0


# ---------------------------------------------------------------------------
def main(mod, argv=None):
    import argparse
    ap = argparse.ArgumentParser()
    ap.add_argument("--tier", default=os.environ.get("VERIF_TIER", "quick"))
    ap.add_argument("--replay")
    ap.add_argument("--seed", type=int, default=None,
                    help="run exactly this run-seed and print its result")
    ap.add_argument("--workers", type=int,
                    default=int(os.environ.get("VERIF_WORKERS", "0")) or
                    min(16, os.cpu_count() or 1))
    ap.add_argument("--seeds", type=int, default=None)
    ap.add_argument("--no-evidence", action="store_true")
    ap.add_argument("--digests", type=int, default=None,
                    help="print seed:digest for the first N run-seeds (selftest)")
    args = ap.parse_args(argv)
    faulthandler.enable()
    try:
        assert_repo()
        if args.replay:
            return do_replay(mod, args.replay)
        if args.digests is not None:
            base = int(os.environ.get("VERIF_SEED", "0") or 0) * 10_000_000
            for sd in range(base, base + args.digests):
                rs = mod.run_seed(sd, args.tier)
                print("%d:%s" % (sd, ",".join(r["digest"] for r in rs)))
            return 0
        if args.seed is not None:
            for r in mod.run_seed(args.seed, args.tier):
                print(json.dumps(jsonable({k: r[k] for k in r if k != "plan"}),
                                 sort_keys=True)[:4000])
                if r["violations"]:
                    print(json.dumps(jsonable(r["plan"]), sort_keys=True))
            return 0
        return _search(mod, args)
    except HarnessError as e:
        print("HARNESS-ERROR %s: %s" % (mod.PROP, e))
        return 2
    except BaseException:
        print("HARNESS-ERROR %s: unexpected exception" % mod.PROP)
        traceback.print_exc()
        return 2


def _search(mod, args):
    tier = args.tier if args.tier in ("quick", "thorough") else "quick"
    cfg = dict(mod.TIERS[tier])
    if args.seeds:
        cfg["seeds"] = args.seeds
    if os.environ.get("VERIF_BUDGET_S"):
        cfg["wall_s"] = float(os.environ["VERIF_BUDGET_S"])
    base = int(os.environ.get("VERIF_SEED", "0") or 0)
    nseeds = cfg["seeds"]
    chunk = cfg.get("chunk", 50)
    wall_cap = cfg.get("wall_s", 600)
    per_run_wall = cfg.get("per_run_wall_s", 60)
    seeds = [base * 10_000_000 + i for i in range(nseeds)]
    chunks = [seeds[i:i + chunk] for i in range(0, len(seeds), chunk)]
    t0 = time.time()
    print("%s tier=%s VERIF_SEED=%d seeds=%d..%d workers=%d repo_head=%s" % (
        mod.PROP, tier, base, seeds[0], seeds[-1], args.workers, repo_head()))
    sys.stdout.flush()

    total = {"evals": 0, "shapes": set(), "faults": {}, "probes": {},
             "vtime_s": 0.0, "events": 0, "states": set(), "viol": {},
             "digests": {}, "samples": [], "nviol_runs": 0}
    harness = None
    done_chunks = 0
    ctx = multiprocessing.get_context("fork")
    modname = mod.__name__
    with cf.ProcessPoolExecutor(max_workers=args.workers, mp_context=ctx) as ex:
        pending = set()
        it = iter(chunks)
        exhausted = False

        def submit_more():
            nonlocal exhausted
            while not exhausted and len(pending) < args.workers * 2:
                try:
                    c = next(it)
                except StopIteration:
                    exhausted = True
                    return
                pending.add(ex.submit(_work_chunk,
                                      (modname, c, tier, per_run_wall)))
        submit_more()
        while pending:
            done, pending = cf.wait(pending, timeout=per_run_wall * chunk + 120,
                                    return_when=cf.FIRST_COMPLETED)
            if not done:
                harness = ("stuck", None, "no worker finished in time")
                break
            for fut in done:
                try:
                    a = fut.result()
                except BaseException:
                    harness = ("worker-died", None, traceback.format_exc())
                    continue
                done_chunks += 1
                if a["harness"] and not harness:
                    harness = a["harness"]
                total["evals"] += a["evals"]
                total["shapes"].update(a["shapes"])
                total["states"].update(a["states"])
                total["vtime_s"] += a["vtime_s"]
                total["events"] += a["events"]
                total["nviol_runs"] += a["nviol_runs"]
                for k, n in a["faults"].items():
                    bump(total["faults"], k, n)
                for k, n in a["probes"].items():
                    bump(total["probes"], k, n)
                total["digests"].update(a["digests"])
                for k, lst in a["viol"].items():
                    total["viol"].setdefault(k, []).extend(lst)
                if len(total["samples"]) < 3:
                    total["samples"].extend(a["samples"][:1])
            if harness:
                break
            if time.time() - t0 > wall_cap:
                print("note: wall cap %.0fs reached after %d/%d chunks" % (
                    wall_cap, done_chunks, len(chunks)))
                exhausted = True
                for p in pending:
                    p.cancel()
                # let running ones finish
                continue
            submit_more()
        if harness:
            for p in pending:
                p.cancel()
            ex.shutdown(wait=False, cancel_futures=True)
    if harness:
        print("HARNESS-ERROR %s: %s seed=%s\n%s" % (
            mod.PROP, harness[0], harness[1], harness[2]))
        # make sure stuck children do not keep us alive
        for p in multiprocessing.active_children():
            p.kill()
        return 2

    # determinism spot check: re-run a few seeds here (another process than the
    # worker that ran them) and compare digests
    ndet = 0
    for seed in sorted(total["digests"])[:cfg.get("det_check", 6)]:
        again = mod.run_seed(seed, tier)
        ndet += 1
        if again and again[0]["digest"] != total["digests"][seed]:
            print("HARNESS-ERROR %s: nondeterministic run seed=%d (%s vs %s)" % (
                mod.PROP, seed, again[0]["digest"], total["digests"][seed]))
            return 2

    wall = time.time() - t0
    findings = load_findings()
    known = known_for(findings, mod.PROP)
    exit_code = 0
    unknown_sigs = []
    for k in sorted(total["viol"]):
        lst = sorted(total["viol"][k], key=lambda x: x["seed"])
        if k in known:
            f = known[k]
            print("KNOWN-FINDING: property=%s %s [%d run(s), e.g. seed %d]" % (
                mod.PROP, f["what"], len(lst), lst[0]["seed"]))
            continue
        unknown_sigs.append(k)
        ent = lst[0]
        plan, tries = minimise(mod, ent["plan"], k,
                               budget_s=cfg.get("shrink_s", 60))
        path = write_replay(mod, mod.PROP, ent["seed"], plan, k)
        print("violation signature %s\n  detail: %s\n  minimised in %d tries" % (
            k, ent["detail"], tries))
        print("VIOLATION property=%s replay=%s" % (mod.PROP, path))
        exit_code = 1

    if not args.no_evidence:
        write_evidence(mod, tier, base, total, wall, ndet, unknown_sigs,
                       [k for k in total["viol"] if k in known], len(seeds),
                       done_chunks * chunk)
    runs_per_h = total["evals"] / wall * 3600 if wall > 0 else 0
    print("%s %s: %d runs (%d seeds), %d distinct nontrivial schedules, "
          "%.0f simulated s, %.1fs wall (%.0f runs/h), violations: %d unknown / %d known signature(s)"
          % (mod.PROP, "FAILED" if exit_code else "held", total["evals"],
             min(done_chunks * chunk, len(seeds)), len(total["shapes"]),
             total["vtime_s"], wall, runs_per_h, len(unknown_sigs),
             len(total["viol"]) - len(unknown_sigs)))
    return exit_code


def write_evidence(mod, tier, base, total, wall, ndet, unknown, known,
                   seeds_planned, seeds_done):
    os.makedirs(EVIDENCE_DIR, exist_ok=True)
    samples = total["samples"][:3] or [{"note": "no sample recorded"}]
    cov = {
        "evaluations": total["evals"],
        "distinct_nontrivial": len(total["shapes"]),
        "rule": mod.RULE,
        "samples": jsonable(samples),
        "seeds_planned": seeds_planned,
        "seeds_done": min(seeds_done, seeds_planned),
        "runs_per_hour": round(total["evals"] / wall * 3600) if wall else 0,
        "simulated_seconds": round(total["vtime_s"], 3),
        "simulator_events": total["events"],
        "faults_fired": dict(sorted(total["faults"].items())),
        "probes": dict(sorted(total["probes"].items())),
        "probes_stuck_at_zero": sorted(
            p for p in getattr(mod, "PROBES", []) if not total["probes"].get(p)),
        "distinct_abstract_states": len(total["states"]),
        "determinism_rechecked_seeds": ndet,
        "violating_runs": total["nviol_runs"],
        "known_finding_signatures": sorted(known),
        "unknown_violation_signatures": sorted(unknown),
        "components": mod.COMPONENTS,
        "repo_head": repo_head(),
    }
    ev = {"property_id": mod.PROP, "tier": tier, "seed": base,
          "level": mod.LEVEL, "coverage": cov,
          "assumptions": mod.ASSUMPTIONS, "wall_s": round(wall, 2),
          "violations": len(unknown)}
    path = os.path.join(EVIDENCE_DIR, "%s.json" % mod.PROP)
    tmp = path + ".tmp"
    with open(tmp, "w") as f:
        json.dump(ev, f, indent=1, sort_keys=True)
    os.replace(tmp, path)
