"""Helpers shared by the drvsim checks' oracles."""
from .runner import new_result


def base_result(rr):
    res = new_result()
    w = rr.world
    res["digest"] = w.log.digest()
    res["shape"] = w.log.shape()
    res["vtime_s"] = getattr(rr, "vtime", 0.0)
    res["events"] = len(w.log)
    f = dict(w.faults)
    for k, n in getattr(rr.dev, "faults_fired", {}).items():
        f[k] = f.get(k, 0) + n
    res["faults"] = f
    res["probes"] = dict(w.probes)
    res["states"] = sorted(w.states)
    return res


def overlap_nontrivial(rr):
    """True iff units of two different callers overlapped in time (by global
    event number, not coarse time)."""
    iv = []
    for u, rec in rr.ops.items():
        if rec.ev_start is not None:
            end = rec.ev_end if rec.ev_end is not None else 1 << 60
            iv.append((rec.ev_start, end, u.split(".")[0]))
    iv.sort()
    for i in range(len(iv)):
        for j in range(i + 1, len(iv)):
            if iv[j][0] > iv[i][1]:
                break
            if iv[j][2] != iv[i][2]:
                return True
    return False
