#!/venv/bin/python
"""Print a replay file's plan and the simulator event log of its re-execution."""
import importlib, json, sys, os
sys.path.insert(0, os.path.dirname(os.path.dirname(os.path.abspath(__file__)))); sys.path.insert(0, '/repo')
import sim.stubs
r = json.load(open(sys.argv[1]))
p = r['plan']
print(json.dumps(r['signature'])); print(r['detail'])
print(json.dumps({k: v for k, v in p.items() if k not in ('callers',)}))
for c in p.get('callers', []): print('  caller', json.dumps(c))
mod = importlib.import_module('checks.' + r['property'].lower())
if '--log' in sys.argv:
    from sim import core
    orig = core.EventLog.add
    def add(self, t, kind, actor, payload=None):
        n = orig(self, t, kind, actor, payload); print('   ', self.events[n]); return n
    core.EventLog.add = add
res = mod.run_plan(p)
for v in res['violations']: print('VIOL', json.dumps(v['sig']), v['detail'][:300])
