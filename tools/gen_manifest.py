#!/usr/bin/env python3
"""Regenerates MANIFEST.json from the table below (kept in one place so the
manifest stays valid and in step with the checks that exist)."""
import json
import os

HERE = os.path.dirname(os.path.dirname(os.path.abspath(__file__)))

NA = {
 "C01": "pure function of (frame, device type, map): no schedule, clock, fault or interleaving to simulate; input enumeration is not simulation (DESIGN.md section 5)",
 "C02": "constructor -> frame -> decoder round trip is a pure, input-quantified function; nothing for a simulator to schedule or fault (DESIGN.md section 5)",
 "C03": "conformance of static opcode/flag tables to the IEC tables; nothing executes over time (DESIGN.md section 5)",
 "C04": "address/instance byte codec is a pure function of a frame value (DESIGN.md section 5)",
 "C05": "Frame is a single-threaded value object; operation histories against a bit-list model are property-based testing, not simulation: no nondeterminism source, fault or time (DESIGN.md section 5)",
 "C06": "response interpretation is a pure function of (class, backward frame) (DESIGN.md section 5)",
 "C11": "raw-bytes <-> value interpretation and the static memory map are pure functions/data (DESIGN.md section 5)",
 "C12": "event decoding through a supplied map is a pure function of (frame, map); learning the map over a faulty bus is C13 and delivery in context is C20 (DESIGN.md section 5)",
}

# id -> (engine, category, text, note, technique)
CHECKS = {
 "C15": ("drvsim", "exploration",
         "Seeded search over schedules: the real hid.tridonic, hid.hasseb, DriverLubaRs232 and DriverSCIRS232 run on a virtual-time asyncio loop against gateway models; 2-4 concurrent callers (sends, explicitly locked sends, sequences that sleep, raise or are cancelled) with seeded start ties, gaps, report latencies and bus outcomes; the oracle checks the tagged wire log (whole units contiguous, EnableDeviceType immediately before each device-type command, per-unit frame list exact), completion of every caller, lock state at quiescence and generator closure. Sampling, not proof.",
         "Trusted base: gateway models written from the protocol notes in the drivers (DESIGN.md 2.5), CPython asyncio, the library's own frame decoder for building command objects. asyncio's FIFO ready queue is not permuted.",
         "deterministic simulation (virtual-time asyncio loop, seeded schedule search, wire-log oracle)", "4"),
 "C16": ("drvsim+syncsim", "exploration",
         "Seeded search: the four asyncio drivers on the virtual loop and the daliserver / ATX-hat clients against blocking fake peers; 1-3 callers issue every category of command; each query gets a seeded bus outcome (silent, a run-unique value, framing error), serial gateways may answer later than the documented timeout, other masters' query/answer traffic is interleaved; the oracle compares type and raw value of every returned response with the outcome the gateway model produced for that very transmission, so an answer handed to the wrong command is attributable. Sampling, not proof.",
         "Trusted base: gateway/peer models (DESIGN.md 2.5), no answer generated inside the 80-120 % ambiguity band of a timeout, runs in which a transmit confirmation is slower than 80 % of its timeout are set aside (C17 territory).",
         "deterministic simulation (virtual-time loop / blocking fake peers, seeded outcomes and latencies, per-transmission answer attribution)", "4"),
 "C17": ("drvsim", "fault_enumeration",
         "Fault enumeration over seeded base schedules: each base (driver, 1-3 callers, reconnect limit/interval, exceptions on/off) runs fault-free to count simulator events, then once per (fault kind, event index): hidraw EOF / EIO, write OSError at every write including the handshake writes, device back after a seeded delay with failing opens, second loss during the reconnect wait or during the handshake, plain cancel / own-timeout of the running op (a subset followed by 300 further sends so sequence numbers wrap); serial: confirmation lost or later than the timeout, answer lost, cancel. Oracles: outcome of every send (correct answer of its own transmission, CommunicationError, or cancelled), bounded completion, lock/semaphore/in-flight-slot state at quiescence, status callbacks against a reference model with virtual timestamps and the retry schedule, handshake before any SEND, fresh sends after recovery. Single-fault placements are enumerated for the sampled bases only (quick: strided).",
         "Trusted base: gateway/hidraw presence models, reference model of DESIGN.md appendix C (the harness plays the application calling connect() again after 'failed' is due), documented serial timeouts taken literally.",
         "deterministic simulation with fault injection at every simulator event index (virtual clock, reference model for connection status)", "4"),
 "C20": ("drvsim", "exploration",
         "Seeded search over bus histories and timings: up to 8 transactions of other masters (plain, query with answer / silence / explicit no-frame / framing error, config sent twice / once / interrupted, EnableDeviceType + extended command, 24-bit commands, events with and without instance map, unknown frames, bursts) interleaved with the driver's own sends, every gap clearly shorter or longer than the 200 ms watcher timer, 0-3 subscribers joining and leaving between reports; the Tridonic bus watcher's callbacks are compared, per subscriber, with a sequential reference watcher fed with the very reports the gateway model delivered (virtual arrival times); LUBA/SCI distribution queues and hasseb own-traffic reports likewise. Runs with a realised gap inside 150-250 ms while a command is pending are set aside.",
         "Trusted base: reference watcher (sim/refs/buswatch.py, DESIGN.md appendix B), gateway report formats, the library's own frame decoder for interpretation.",
         "deterministic simulation (virtual clock around a 200 ms timer, seeded histories, reference watcher oracle)", "4"),
 "C18": ("drvsim+syncsim", "exploration",
         "Seeded search over command sequences: every packet the nine drivers write is parsed by an independent table-driven referee of that gateway's wire format and compared with the command's frame and flags (field alignment, length/mode code, send-twice flag or double write, LUBA priority, padding, checksums, sequence numbers in range without immediate repetition over > 600 consecutive sends), frames of unsupported length must be refused before any byte is written, and every status/type code is fed to the blocking drivers' receive functions. The asyncio drivers run on the virtual loop, partly with two concurrent callers.",
         "Trusted base: the referees' transcription of the protocol notes quoted in the drivers (DESIGN.md 2.5 / C18); SCI transmit layout of the pinned tree assumed correct; vendor documents not available offline.",
         "deterministic simulation (wire referees in the gateway models; seeded command histories incl. sequence-number wrap)", "4"),
 "C19": ("rxsim", "exploration",
         "Seeded search over byte streams and chunkings: grammar-guided LUBA and SCI streams (valid frames of every type, every value of the length byte, corrupted checksums, truncated frames, noise with embedded start bytes) with injected line faults (bit flips, dropped / duplicated / inserted bytes) are delivered to fresh real protocol objects under four chunkings; queue contents (answers, confirmations, info/settings, observed commands with their device-type context) must equal the items of an independent reference deframer for every chunking, no exception may leave data_received, and a well-formed probe frame after the stream must still be accepted.",
         "Trusted base: the reference grammar of DESIGN.md C19 (sim/refs/deframers.py); streams containing checksum-valid frames malformed for their type are set aside as the property prescribes.",
         "deterministic simulation of a faulty serial line (seeded streams, line faults, re-chunking) against a reference deframer", "4"),
 "C08": ("busim", "exploration",
         "Seeded search: the real QueryDeviceTypes / QueryGroups / SetGroups generators are stepped against executable IEC 62386-102 gear models (device-type enumeration state machine, groups, send-twice acceptance, collisions between units on one address) with answer loss / framing errors at seeded command indices and adversarial, endlessly repeating answer streams; oracle: returned data equals the model's state (or DALISequenceError once disturbed), termination within a step cap, final group membership of every addressed unit, untouched bystanders, minimal number of changes for readable destinations.",
         "Trusted base: gear model of DESIGN.md appendix A.1 (sim/busim.py), written independently of dali/tests/fakes.py.",
         "deterministic co-simulation of sequence and bus units with fault injection on answers (seeded scenarios)", "4"),
 "C14": ("busim", "exploration",
         "Seeded search: SetDT8ColourValueTc / SetDT8TcLimit / QueryDT8ColourValue stepped against IEC 62386-209 Tc unit models with stale DTR contents; quick walks through all 65536 mirek values once (edges over-weighted), all four limit selectors, all query selectors against stored values incl. MASK, silence or framing error on either answer byte, short/int/group/broadcast destinations with bystanders, out-of-range and wrong-type arguments; oracle: the unit's Tc / limit registers after the sequence, Activate applied, bystanders untouched, query result exact or None, bad arguments rejected before the first command.",
         "Trusted base: Tc unit model of DESIGN.md appendix A.1 (sim/busim.py).",
         "deterministic co-simulation of sequence and DT8 unit models with answer faults", "4"),
 "C13": ("busim", "exploration",
         "Seeded search: query_input_value (resolutions 1-32, sensor changing between byte reads), SetEventFilters / QueryEventFilters (library 8-bit enums, harness-defined 16- and 24-bit enums, plain ints, stale DTR contents), SetEventSchemes (all schemes and invalid ones) and DeviceInstanceTypeMapper.autodiscover (0-64 devices, arbitrary status bits, 0-32 instances, two devices on one address) stepped against IEC 62386-103 control-device models with silence or a framing error at a seeded command index; oracle: reassembled value equals the latched value, instance filter/scheme equals the request and the returned read-back, scan map equals the enabled instances of healthy devices, scan bracketed in quiescent mode, faults lead to skip / None / DALISequenceError only.",
         "Trusted base: control-device model of DESIGN.md appendix A.3 (sim/busim.py).",
         "deterministic co-simulation of sequence and control-device models with answer faults and a concurrently changing sensor", "4"),
 "C09": ("busim", "fault_enumeration",
         "Fault enumeration over seeded scenarios: every declared value of banks 0, 0-legacy, 1, 202-207 (MemoryValue.read / read_raw) and MemoryBank.read_all with and without latch are stepped against a memory model of IEC 62386-102 9.10 (last accessible location anywhere in 0..254, holes, lock byte 0xFF/0x55/0xAA, gear and device addressing) while an environment actor rewrites live bytes between commands; each scenario runs fault-free and then once per (silence | framing error, command index). Oracle: value equals the library's own interpretation of the bytes the model shows at the declared locations (from the latched snapshot when latching), MemoryLocationNotImplemented / ResponseError exactly when a needed location is missing / an answer garbled, read_all reports exactly the fully readable values, memory byte-identical afterwards, bank not left latched - also after a read that raises.",
         "Trusted base: memory model of DESIGN.md appendix A.2 (write enable reset by any frame outside the DTR / write / query-DTR family - the same reading the repository's fake gear uses); the library's check_raw/raw_to_value for interpretation (C11 not judged).",
         "deterministic co-simulation with single-fault enumeration over every command index and concurrent memory mutation", "4"),
 "C10": ("busim", "fault_enumeration",
         "Fault enumeration over seeded scenarios: all 27 writable values (and the read-only ones, which must be refused before any command) with seeded raw data, initial lock byte locked / unlocked / odd, gear or device addressing, ignore_feedback / force_unlock options; each scenario runs fault-free and then once per (fault kind, command index): unit answers NO, echoes another byte, framing error on the echo, answer lost, DTR0 not advancing, unit stays locked, non-standard unlock value, bank shorter than the value, unrelated frame of another master before each command. Oracle: a normal return implies exactly those bytes at exactly those locations, nothing else changed in any bank or unit, lockable bank locked again; failures only through the documented memory/response exceptions; no failure without a fault.",
         "Trusted base: memory model of DESIGN.md appendix A.2; cell types taken from the library's declarations (layout is C11's business).",
         "deterministic co-simulation with single-fault enumeration over fault kinds x command indices", "4"),
 "C07": ("busim", "exploration",
         "Seeded search over populations and random-address histories: dali.sequences.Commissioning is stepped against 0-70 gear models (short address none / unique / duplicated) whose random-address draws come from plan-given adversarial streams (tiny address spaces, 0 / 0xFFFFFF, a unit re-drawing exactly what another unit draws, up to 6 forced clash rounds, then unique values), with every kind of permitted-address set, both readdress modes, dry run, and units that do not store or do not verify. Oracle on the models' final state: bounded number of commands, final TERMINATE, every unit out of initialisation, the right number of participants addressed from the permitted free set, addresses pairwise distinct and distinct from non-participants', non-participants and dry runs unchanged, ProgramShortAddressFailure for unconfirmed addresses.",
         "Trusted base: initialisation state machine of DESIGN.md appendix A.1 (withdrawn gear still executes RANDOMISE / PROGRAM SHORT ADDRESS, the reading shared by the library's docstrings and its fake gear).",
         "deterministic co-simulation of sequence and gear population with adversarial seeded randomness of the peers", "4"),
}

PLANNED = {}

def main():
    checks = []
    for pid in sorted(CHECKS):
        eng, cat, text, note, tech, ref = CHECKS[pid]
        checks.append({
            "property_id": pid,
            "quick_cmd": "./check %s --tier quick" % pid,
            "thorough_cmd": "./check %s --tier thorough" % pid,
            "evidence_file": "/verif/evidence/%s.json" % pid,
            "replay_cmd_template": "./check %s --replay {path}" % pid,
            "engine": eng,
            "level_claimed": {"category": cat, "text": text,
                              "design_ref": "DESIGN.md section %s / %s" % (ref, pid)},
            "level_note": note,
            "technique": tech,
        })
    na = [{"property_id": k, "reason": v} for k, v in sorted(NA.items())]
    na += [{"property_id": k, "reason": v} for k, v in sorted(PLANNED.items()) if k not in CHECKS]
    m = {
        "version": 1,
        "setup_cmd": "./setup.sh",
        "hooks": {
            "guard": "PYTHON_DALI_VERIF",
            "enable": "no hook in /repo is needed: every seam is a module attribute (dali.driver.hid.os/glob/random, dali.driver.serial.serial_asyncio, ...) replaced by /verif at run time; ./check sets PYTHON_DALI_VERIF=1 for uniformity",
            "baseline_off_cmd": "cd /repo && /venv/bin/python -m pytest -ra -q -p no:cacheprovider --timeout=900 --continue-on-collection-errors",
            "source_commits": [],
            "add_only": True,
        },
        "engines": [
            {"name": "drvsim", "path": "sim/drvsim.py", "serves_properties": ["C15", "C16", "C17", "C18", "C20"],
             "kind_free_text": "real asyncio drivers on a virtual-time BaseEventLoop subclass against gateway models; seeded plans, fault injection, wire-log and history oracles"},
            {"name": "busim", "path": "sim/busim.py", "serves_properties": ["C07", "C08", "C09", "C10", "C13", "C14"],
             "kind_free_text": "real sequence generators stepped against executable IEC 62386-102/103/209 unit models with answer faults and concurrent environment actors"},
            {"name": "syncsim", "path": "sim/syncsim.py", "serves_properties": ["C16", "C18"],
             "kind_free_text": "blocking drivers against fake peers (socket, serial, usb, hid, modbus) with a virtual clock"},
            {"name": "rxsim", "path": "sim/rxsim.py", "serves_properties": ["C19"],
             "kind_free_text": "serial receiver state machines under torn, noisy, re-chunked byte streams against a reference deframer"},
        ],
        "checks": checks,
        "not_applicable": na,
        "notes": "All checks: ./check <ID> --tier quick|thorough, honour VERIF_SEED / VERIF_TIER / VERIF_BUDGET_S / VERIF_WORKERS; exit 0 held (KNOWN-FINDING lines for entries of known_findings.json), 1 VIOLATION with replay file, 2 HARNESS-ERROR. See DESIGN.md.",
    }
    with open(os.path.join(HERE, "MANIFEST.json"), "w") as f:
        json.dump(m, f, indent=1)
        f.write("\n")

if __name__ == "__main__":
    import sys
    sys.path.insert(0, os.path.dirname(os.path.abspath(__file__)))
    try:
        import manifest_planned
        PLANNED.update(manifest_planned.PLANNED)
    except ImportError:
        pass
    main()
