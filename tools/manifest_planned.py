# properties whose check is designed (DESIGN.md section 4) but not built yet;
# removed from here as each check lands
_R = "check designed in DESIGN.md section 4 but not built yet in this commit; not claimed until it runs"
PLANNED = {k: _R for k in ["C07", "C14"]}
