#!/venv/bin/python
"""Confirm a seeded change produced by a sub-agent and run the property's
check against it.

usage: tools/eval_seeded.py C08 A [--tier quick] [--keep]
  reads /tmp/seed_<ID>/_seed/patch<X>.diff and demo<X>.py

1. scratch worktree under /tmp (removed afterwards): demo passes without the
   patch; with the patch the repository's suite still passes (110 passed) and
   the demo fails;
2. the patch is applied to /repo itself (git apply), ./check <ID> runs, and the
   patch is undone straight afterwards (git checkout -- .);
3. with --keep the change is stored as /verif/seeded/<ID>-<x>/ (patch.diff, demo.py,
   meta.json).
"""
import json
import os
import shutil
import subprocess
import sys
import time

VERIF = os.path.dirname(os.path.dirname(os.path.abspath(__file__)))


def sh(cmd, cwd=None, env=None, timeout=3000):
    p = subprocess.run(cmd, cwd=cwd, env=env, capture_output=True, text=True, timeout=timeout)
    return p.returncode, p.stdout + p.stderr


def main():
    pid, x = sys.argv[1], sys.argv[2]
    keep = "--keep" in sys.argv
    tier = "quick"
    if "--tier" in sys.argv:
        tier = sys.argv[sys.argv.index("--tier") + 1]
    src = "/tmp/seed_%s/_seed" % pid
    if "--from" in sys.argv:
        src = sys.argv[sys.argv.index("--from") + 1]
    patch = os.path.join(src, "patch%s.diff" % x)
    demo = os.path.join(src, "demo%s.py" % x)
    if not os.path.exists(patch):
        patch = os.path.join(src, "patch.diff")
        demo = os.path.join(src, "demo.py")
    # the check that is run; by default the one of the property the change was written against
    chk = pid
    if "--with-check" in sys.argv:
        chk = sys.argv[sys.argv.index("--with-check") + 1]
    helpers = []
    wt = "/tmp/evalwt_%s_%s" % (pid, x)
    sh(["git", "-C", "/repo", "worktree", "remove", "--force", wt])
    shutil.rmtree(wt, ignore_errors=True)
    rc, out = sh(["git", "-C", "/repo", "worktree", "add", "--detach", wt, "HEAD"])
    assert rc == 0, out
    meta = {"property": pid, "variant": x, "ran": []}
    env = dict(os.environ, PYTHONPATH=wt)
    try:
        os.makedirs(wt + "/_seed", exist_ok=True)
        shutil.copy(demo, wt + "/_seed/demo.py")
        # helper modules a demonstration imports (anything but the demos and patches themselves)
        helpers = [f for f in os.listdir(src) if f.endswith(".py") and not f.startswith(("demo", "_body"))
                   and f != "demo.py"]
        for f in helpers:
            shutil.copy(os.path.join(src, f), wt + "/_seed/" + f)
        rc0, out0 = sh(["/venv/bin/python", "_seed/demo.py"], cwd=wt, env=env, timeout=600)
        meta["demo_without_change_exit"] = rc0
        rc, out = sh(["git", "-C", wt, "apply", patch])
        if rc != 0:
            print("patch does not apply:", out)
            meta["applies"] = False
            print(json.dumps(meta))
            return 2
        meta["applies"] = True
        rc1, out1 = sh(["/venv/bin/python", "_seed/demo.py"], cwd=wt, env=env, timeout=600)
        meta["demo_with_change_exit"] = rc1
        meta["demo_with_change_tail"] = out1.strip().splitlines()[-2:]
        rc, out = sh(["/venv/bin/python", "-m", "pytest", "-q", "-p", "no:cacheprovider",
                      "--continue-on-collection-errors", "--timeout=900"], cwd=wt, env=env)
        meta["suite_with_change"] = (out.strip().splitlines() or [""])[-1]
        if "--worktree" in sys.argv:
            # run our check against the patched scratch worktree (VERIF_REPO) instead of
            # touching /repo - used while a background soak reads /repo
            t0 = time.time()
            crc, cout = sh([os.path.join(VERIF, "check"), chk, "--tier", tier, "--no-evidence"], cwd=VERIF,
                           env=dict(os.environ, VERIF_REPO=wt))
            meta["_wt_check"] = (crc, cout, round(time.time() - t0, 1))
    finally:
        sh(["git", "-C", "/repo", "worktree", "remove", "--force", wt])
        shutil.rmtree(wt, ignore_errors=True)
    confirmed = rc0 == 0 and rc1 != 0 and "110 passed" in meta["suite_with_change"]
    meta["confirmed"] = confirmed
    # ---- our check against /repo with the change applied
    if "_wt_check" in meta:
        crc, cout, wall = meta.pop("_wt_check")
        t0 = time.time() - wall
        how = "VERIF_REPO=<scratch worktree with patch.diff applied> ./check %s --tier %s --no-evidence" % (chk, tier)
    else:
        rc, out = sh(["git", "-C", "/repo", "status", "--porcelain"])
        if out.strip():
            print("refusing: /repo working tree is not clean:\n" + out)
            return 2
        t0 = time.time()
        rc, out = sh(["git", "-C", "/repo", "apply", patch])
        assert rc == 0, out
        try:
            crc, cout = sh([os.path.join(VERIF, "check"), chk, "--tier", tier, "--no-evidence"], cwd=VERIF)
        finally:
            sh(["git", "-C", "/repo", "checkout", "--", "."])
        rc, out = sh(["git", "-C", "/repo", "status", "--porcelain"])
        assert not out.strip(), "repo not clean after undo: " + out
        how = "git -C /repo apply patch.diff; ./check %s --tier %s --no-evidence; git -C /repo checkout -- ." % (chk, tier)
    sigs = [l.split("violation signature ", 1)[1] for l in cout.splitlines() if l.startswith("violation signature ")]
    details = [l.strip() for l in cout.splitlines() if l.strip().startswith("detail:")]
    meta["check_exit"] = crc
    meta["check_detected"] = crc == 1 and ("VIOLATION property=%s" % chk) in cout
    meta["detected_by_check"] = chk if meta["check_detected"] else None
    meta["check_signatures"] = sigs[:5]
    meta["check_details"] = [d[:300] for d in details[:3]]
    meta["check_wall_s"] = round(time.time() - t0, 1)
    meta["check_summary"] = (cout.strip().splitlines() or [""])[-1][:300]
    meta["ran"] = ["scratch worktree: demo without change, git apply, demo with change, repository suite",
                   how]
    print(json.dumps(meta, indent=1))
    name = x.lower()
    if "--as" in sys.argv:
        name = sys.argv[sys.argv.index("--as") + 1]
    if keep and confirmed:
        d = os.path.join(VERIF, "seeded", "%s-%s" % (pid, name))
        os.makedirs(d, exist_ok=True)
        if os.path.abspath(patch) != os.path.abspath(os.path.join(d, "patch.diff")):
            shutil.copy(patch, os.path.join(d, "patch.diff"))
            shutil.copy(demo, os.path.join(d, "demo.py"))
        for f in helpers:
            if os.path.abspath(os.path.join(src, f)) != os.path.abspath(os.path.join(d, f)):
                shutil.copy(os.path.join(src, f), os.path.join(d, f))
        mpath = os.path.join(d, "meta.json")
        old = json.load(open(mpath)) if os.path.exists(mpath) else {}
        old.update(meta)
        json.dump(old, open(mpath, "w"), indent=1)
    return 0


if __name__ == "__main__":
    sys.exit(main())
