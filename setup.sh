#!/bin/sh
# Offline setup: nothing to build or fetch - the framework is pure Python on
# /venv (which has the repo installed in editable mode and needs no extra
# packages).  Byte-compile and import everything once as a self check.
set -e
cd "$(dirname "$0")"
/venv/bin/python -m compileall -q sim checks >/dev/null
PYTHONHASHSEED=0 /venv/bin/python - <<'PY'
import sys
sys.path.insert(0, "/verif"); sys.path.insert(0, "/repo")
import sim.stubs, sim.loop, sim.drvsim, sim.runner
import dali, os
assert os.path.realpath(dali.__file__).startswith("/repo/"), dali.__file__
print("setup ok: dali from", dali.__file__)
PY
mkdir -p evidence
