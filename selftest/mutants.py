#!/venv/bin/python
"""Sensitivity self-test: hand-written mutants of /repo (the S items of
DESIGN.md section 4).  Each mutant is applied to a scratch git worktree under
/tmp (removed afterwards), the repository's own test-suite must still pass
there, and the property's quick check - pointed at the worktree through
VERIF_REPO - must report a VIOLATION within its budget.

usage: selftest/mutants.py [--only ID[,ID]] [--jobs N] [--keep-going]
Writes selftest/mutants_result.json and prints a table.
"""
import concurrent.futures as cf
import json
import os
import shutil
import subprocess
import sys
import time

VERIF = os.path.dirname(os.path.dirname(os.path.abspath(__file__)))
REPO = "/repo"

# (mutant id, property, file, old, new)
M = []


def m(mid, prop, path, old, new):
    M.append((mid, prop, path, old, new))


SEQ = "dali/sequences.py"
HID = "dali/driver/hid.py"
SER = "dali/driver/serial.py"
LOC = "dali/memory/location.py"
DSEQ = "dali/device/sequences.py"
DHLP = "dali/device/helpers.py"
GSEQ = "dali/gear/sequences.py"

# ---- C07
m("c07-leaf-collision-is-found", "C07", SEQ, 'return "clash" if r.raw_value.error else low', "return low")
m("c07-no-final-terminate", "C07", SEQ, '    yield Terminate()\n    yield progress(message="Addressing complete")',
  '    yield progress(message="Addressing complete")')
m("c07-in-use-not-removed", "C07", SEQ, "                if in_use.value:\n                    available_addresses.remove(a)",
  "                if in_use.value and a > 40:\n                    available_addresses.remove(a)")
m("c07-verify-ignored", "C07", SEQ, "                    if r.value is not True:\n                        raise ProgramShortAddressFailure(new_addr)",
  "                    if r.value is not True and new_addr > 50:\n                        raise ProgramShortAddressFailure(new_addr)")
m("c07-clash-fix-reverted", "C07", SEQ, "                    yield Terminate()\n                    yield Initialise(broadcast=False)\n",
  "                    pass\n")
m("c07-pop-last-address", "C07", SEQ, "new_addr = available_addresses.pop(0)", "new_addr = available_addresses[0]")
# ---- C08
m("c08-group-bytes-swapped", "C08", SEQ, "g = g1.raw_value + g0.raw_value", "g = g0.raw_value + g1.raw_value")
m("c08-add-remove-swapped", "C08", SEQ, "        for i in groups - existing:\n            yield AddToGroup(addr, i)\n        for i in existing - groups:\n            yield RemoveFromGroup(addr, i)",
  "        for i in groups - existing:\n            yield AddToGroup(addr, i)\n        for i in existing - groups:\n            if i != 13:\n                yield RemoveFromGroup(addr, i)")
m("c08-order-guard-removed", "C08", SEQ, "        if r.raw_value.as_integer <= last_seen:", "        if r.raw_value.as_integer < -1:")
m("c08-group-15-missed", "C08", SEQ, "    for i in range(0, 16):\n        if g[i]:", "    for i in range(0, 15):\n        if g[i]:")
m("c08-error-check-reverted", "C08", SEQ, '        if r.raw_value.error:\n            raise DALISequenceError(\n                "Framing error in response to QueryNextDeviceType()")\n', "")
# ---- C09
m("c09-start-address-3", "C09", LOC, "start_address = 0x02 if self.address == 0 else 0x03", "start_address = 0x03")
m("c09-latch-wrong-location", "C09", LOC, "            yield _EnableWriteMemory(addr)\n            yield _DTR0(addr, 2)\n            yield _WriteMemoryLocationNoReply(addr, 0xAA)\n            dtr0 = 3",
  "            yield _EnableWriteMemory(addr)\n            yield _DTR0(addr, 3)\n            yield _WriteMemoryLocationNoReply(addr, 0xAA)\n            dtr0 = 4")
m("c09-unlatch-fix-reverted", "C09", LOC, "            # The reads above have reset the unit's write enable state;\n            # without enabling it again the un-latch write is ignored\n            yield _EnableWriteMemory(addr)\n", "")
m("c09-no-latch-at-all", "C09", LOC, "        if use_latch and self.has_latch:\n            yield _EnableWriteMemory(addr)\n            yield _DTR0(addr, 2)\n            yield _WriteMemoryLocationNoReply(addr, 0xAA)\n            dtr0 = 3",
  "        if use_latch and self.has_latch and False:\n            dtr0 = 3")
m("c09-garble-read-as-value", "C09", LOC, "            if r.raw_value.error:\n                raise ResponseError(\n                    f'Framing error in response from bus unit at address '\n                    f'\"{str(addr)}\" while reading '",
  "            if r.raw_value.error and location.address > 9:\n                raise ResponseError(\n                    f'Framing error in response from bus unit at address '\n                    f'\"{str(addr)}\" while reading '")
# ---- C10
m("c10-echo-check-removed", "C10", LOC, "                if r.raw_value.as_integer != value:", "                if r.raw_value.as_integer != value and False:")
m("c10-dtr0-postcheck-removed", "C10", LOC, "            if r.raw_value.as_integer != dtr0:\n                raise MemoryWriteFailure(", "            if r.raw_value.as_integer != dtr0 and False:\n                raise MemoryWriteFailure(")
m("c10-relock-removed", "C10", LOC, "        if unlock_required:\n            yield _DTR0(addr, 2)\n            yield _WriteMemoryLocationNoReply(addr, 0xff)", "        if unlock_required and False:\n            yield _DTR0(addr, 2)")
m("c10-no-answer-ignored", "C10", LOC, "                if r.raw_value is None:\n                    raise MemoryLocationNotWriteable(", "                if r.raw_value is None and location.address < 4:\n                    raise MemoryLocationNotWriteable(")
m("c10-readonly-check-late", "C10", LOC, "                raise MemoryValueNotWriteable(f\"{str(cls)} is not a writeable MemoryValue\")",
  "                if location.address > 8:\n                    raise MemoryValueNotWriteable(f\"{str(cls)} is not a writeable MemoryValue\")")
# ---- C13
m("c13-filter-big-endian", "C13", DSEQ, 'lo, md, hi = filter_value.to_bytes(3, "little")', 'hi, md, lo = filter_value.to_bytes(3, "little")')
m("c13-no-final-shift", "C13", DSEQ, "        value >>= 8 - resolution", "        value >>= 0")
m("c13-disabled-instances-recorded", "C13", DHLP, "                if not rsp.value:\n                    # Skip if not enabled\n                    continue", "                pass")
m("c13-dtr2-fix-reverted", "C13", DSEQ, "    if uses_dtr2:\n        rsp = yield DTR2(hi)", "    if uses_dtr2 > 16:\n        rsp = yield DTR2(hi)")
m("c13-stop-quiescent-dropped", "C13", DHLP, "        # End quiescent mode\n        yield StopQuiescentMode(DeviceBroadcast())", "        # End quiescent mode")
m("c13-latch-not-used", "C13", DSEQ, "        chunk = yield QueryInputValueLatch(device, instance)", "        chunk = yield QueryInputValue(device, instance)")
# ---- C14
m("c14-dtr-swapped", "C14", GSEQ, "    yield DTR0(tc_bytes[0])\n    yield DTR1(tc_bytes[1])\n    yield SetTemporaryColourTemperature(address)",
  "    yield DTR0(tc_bytes[1])\n    yield DTR1(tc_bytes[0])\n    yield SetTemporaryColourTemperature(address)")
m("c14-no-activate", "C14", GSEQ, "    yield SetTemporaryColourTemperature(address)\n    yield Activate(address)", "    yield SetTemporaryColourTemperature(address)")
m("c14-selector-after-query", "C14", GSEQ, "    yield DTR0(query.value)\n    msb = yield QueryColourValue(address)", "    msb = yield QueryColourValue(address)\n    yield DTR0(query.value)")
m("c14-limit-no-selector", "C14", GSEQ, "    yield DTR2(what_limit)\n", "")
# ---- C15
m("c15-hid-send-without-lock", "C15", HID, "attribute to False.\n        \"\"\"\n        if exceptions is None:\n            exceptions = self.exceptions_on_send\n\n        if not in_transaction:",
  "attribute to False.\n        \"\"\"\n        if exceptions is None:\n            exceptions = self.exceptions_on_send\n\n        in_transaction = in_transaction or not command.is_query\n        if not in_transaction:")
m("c15-hid-edt-outside-lock", "C15", HID, "        await self.transaction_lock.acquire()\n        response = None\n        try:\n            while True:\n                try:\n                    cmd = seq.send(response)",
  "        response = None\n        try:\n            first = True\n            while True:\n                try:\n                    cmd = seq.send(response)\n                    if first:\n                        first = False\n                        await self.transaction_lock.acquire()")
m("c15-hid-seq-not-closed", "C15", HID, "            self.transaction_lock.release()\n            seq.close()", "            self.transaction_lock.release()")
m("c15-serial-in-transaction-inverted", "C15", SER, "        if not in_transaction:\n            await self.transaction_lock.acquire()\n        try:\n            # Make sure the received command buffer is empty, so that an\n            # unexpected response can't accidentally be used\n            self._protocol.reset_dali_response()\n            await self._protocol.send_dali_command(msg)\n            if msg.is_query:\n                response = msg.response(None)\n                while True:\n                    try:\n                        raw_rsp = await asyncio.wait_for(\n                            self._protocol.wait_dali_raw_response(),",
  "        if not in_transaction and msg.is_query:\n            await self.transaction_lock.acquire()\n        try:\n            # Make sure the received command buffer is empty, so that an\n            # unexpected response can't accidentally be used\n            self._protocol.reset_dali_response()\n            await self._protocol.send_dali_command(msg)\n            if msg.is_query:\n                response = msg.response(None)\n                while True:\n                    try:\n                        raw_rsp = await asyncio.wait_for(\n                            self._protocol.wait_dali_raw_response(),")
m("c15-serial-seq-lock-released-on-sleep", "C15", SER, "                    if isinstance(cmd, sequences.sleep):\n                        await asyncio.sleep(cmd.delay)",
  "                    if isinstance(cmd, sequences.sleep):\n                        self.transaction_lock.release()\n                        await asyncio.sleep(cmd.delay)\n                        await self.transaction_lock.acquire()")
# ---- C16
m("c16-tridonic-seq-routing-removed", "C16", HID, "            if seq in self._outstanding:\n                event, messages = self._outstanding[seq]",
  "            if self._outstanding:\n                event, messages = self._outstanding[min(self._outstanding)]")
m("c16-hasseb-status-swapped", "C16", HID, "                elif self._response[0] == self._NO_ANSWER:\n                    response = command.response(None)\n                elif self._response[0] == self._OK:",
  "                elif self._response[0] == self._OK and self._response[1] == 0:\n                    response = command.response(None)\n                elif self._response[0] == self._OK:")
m("c16-serial-flush-removed", "C16", SER, "            self._protocol.reset_dali_response()\n            await self._protocol.send_dali_command(msg)\n            if msg.is_query:\n                response = msg.response(None)\n                while True:\n                    try:\n                        raw_rsp = await asyncio.wait_for(\n                            self._protocol._queue_rx_raw_dali.get(),",
  "            await self._protocol.send_dali_command(msg)\n            if msg.is_query:\n                response = msg.response(None)\n                while True:\n                    try:\n                        raw_rsp = await asyncio.wait_for(\n                            self._protocol._queue_rx_raw_dali.get(),")
m("c16-daliserver-255-as-value", "C16", "dali/driver/daliserver.py", "                response = command.response(dali.frame.BackwardFrameError(255))", "                response = command.response(dali.frame.BackwardFrame(255))")
m("c16-tridonic-generic-response", "C16", HID, "                if response == \"no\":\n                    return command.response(None)\n                return command.response(response)",
  "                if response == \"no\":\n                    return command.response(None)\n                return dali.command.NumericResponse(response)")
m("c16-atx-value-lost", "C16", "dali/driver/atxled.py", "                data = int(data[1:], 16)\n                return BackwardFrame(data)", "                data = int(data[1:], 16)\n                return BackwardFrame(data & 0x7F)")
# ---- C17
m("c17-fail-wakeup-removed", "C17", HID, "        for event, messages in self._outstanding.values():\n            messages.append(\"fail\")\n            event.set()\n", "")
m("c17-reconnect-counter-not-reset", "C17", HID, "        self._reconnect_count = 0\n        self._log.debug(\"hid opened %s\", path[0])", "        self._log.debug(\"hid opened %s\", path[0])")
m("c17-connected-not-cleared", "C17", HID, "        self._f = None\n        self.connected.clear()\n        self.connection_status_callback._invoke(\"disconnected\")", "        self._f = None\n        self.connection_status_callback._invoke(\"disconnected\")")
m("c17-failed-fix-reverted", "C17", HID, "            self.connection_status_callback._invoke(\"failed\")\n", "")
m("c17-slot-fix-reverted", "C17", HID, "                        self._outstanding.pop(seq, None)\n                        raise", "                        raise")
m("c17-eof-ignored", "C17", HID, "        if len(data) == 0:\n            self.disconnect(reconnect=True)\n            return", "        if len(data) == 0:\n            return")
m("c17-retry-without-edt", "C17", HID, "            command_sent = False\n            while not command_sent:\n                try:\n                    if command.devicetype != 0:\n                        await self._send_raw(EnableDeviceType(command.devicetype))\n                    response = await self._send_raw(command)",
  "            command_sent = False\n            edt_sent = False\n            while not command_sent:\n                try:\n                    if command.devicetype != 0 and not edt_sent:\n                        await self._send_raw(EnableDeviceType(command.devicetype))\n                        edt_sent = True\n                    response = await self._send_raw(command)")
m("c17-hasseb-lock-leak", "C17", HID, "                if self._response == \"fail\":\n                    raise CommunicationError", "                if self._response == \"fail\":\n                    await self._command_lock.acquire()\n                    raise CommunicationError")
m("c17-luba-confirm-timeout-doubled", "C17", SER, "                    confirm = await asyncio.wait_for(\n                        self._queue_tx_conf.get(),\n                        timeout=DriverLubaRs232.timeout_tx_confirm,\n                    )",
  "                    confirm = await asyncio.wait_for(\n                        self._queue_tx_conf.get(),\n                        timeout=3 * DriverLubaRs232.timeout_tx_confirm,\n                    )")
# ---- C18
m("c18-tridonic-frame-shifted", "C18", HID, "                frame=frame.pack_len(4))", "                frame=frame.pack_len(3) + b\"\\0\")")
m("c18-tridonic-twice-flag-dropped", "C18", HID, "                ctrl=self._SEND_CTRL_SENDTWICE if command.sendtwice else 0,", "                ctrl=self._SEND_CTRL_SENDTWICE if (command.sendtwice and len(frame) == 16) else 0,")
m("c18-luba-checksum-span", "C18", SER, "        def _insert_checksum(in_ints: list[int]) -> None:\n            in_ints[-1] = reduce(xor, in_ints[1:-1])", "        def _insert_checksum(in_ints: list[int]) -> None:\n            in_ints[-1] = reduce(xor, in_ints[2:-1])")
m("c18-sci-mode-swapped", "C18", SER, "            elif len(dali_ints) == 2:\n                control_byte |= 3\n            elif len(dali_ints) == 3:\n                control_byte |= 8", "            elif len(dali_ints) == 2:\n                control_byte |= 8\n            elif len(dali_ints) == 3:\n                control_byte |= 3")
m("c18-tridonic-seq-wraps-to-zero", "C18", HID, "            if i > 0xff:\n                i = 1", "            if i > 0xff:\n                i = 0")
m("c18-luba-priority-bit", "C18", SER, "                priority = 0b00000010  # Priority 2 (second-highest)", "                priority = 0b00000011  # Priority 2 (second-highest)")
m("c18-unipi-twice-flag", "C18", "dali/driver/unipi.py", "            ad, cm1, cm2 = frame.as_byte_sequence\n            reg1 = (opt << 8) | ad", "            ad, cm1, cm2 = frame.as_byte_sequence\n            reg1 = (0x3 << 8) | ad")
m("c18-atx-lowercase-hex", "C18", "dali/driver/atxled.py", "\"{:02X}\".format(byte)", "\"{:02x}\".format(byte)")
m("c18-legacy-hasseb-twice", "C18", "dali/driver/hasseb.py", "            send_twice = 10 # 10 ms delay between messages", "            send_twice = 0 # 10 ms delay between messages")
# ---- C19
m("c19-luba-rx-checksum-span", "C19", SER, "                check = reduce(xor, received_data[1:-1])", "                check = reduce(xor, received_data[2:-1]) ^ received_data[1]  if received_data[1] != 0x33 else 0")
m("c19-no-reset-after-bad-checksum", "C19", SER, "                    _LOG.trace(received_data)\n                    self.reset()\n                    return", "                    _LOG.trace(received_data)\n                    return")
m("c19-length-fix-reverted", "C19", SER, "                if 0 < rx_int <= self.MAX_LEN - 4:", "                if 0 < rx_int < self.MAX_LEN:")
m("c19-sci-checksum-span", "C19", SER, "                check = reduce(xor, self._buffer[0:4])", "                check = reduce(xor, self._buffer[1:4]) ^ (self._buffer[0] & 0xEF)")
m("c19-luba-y-in-wait-command", "C19", SER, "                self._buffer[1] = rx_int\n                try:\n                    rx_cmd = DriverLubaRs232.LubaCmd(self._buffer[1])", "                self._buffer[1] = rx_int\n                if rx_int == 0x59:\n                    return\n                try:\n                    rx_cmd = DriverLubaRs232.LubaCmd(self._buffer[1])")
m("c19-sci-24bit-as-16", "C19", SER, "                        self._process_dali_frame(self._buffer[1:4])", "                        self._process_dali_frame(self._buffer[1:4] if self._buffer[1] else self._buffer[2:4])")
# ---- C20
m("c20-devicetype-sticky", "C20", HID, "                    dev_inst_map=self.dev_inst_map)\n                devicetype = 0\n", "                    dev_inst_map=self.dev_inst_map)\n")
m("c20-repeat-not-compared", "C20", HID, "                        if current_command.frame == frame:\n                            self._log.debug(\"Config command: %s\", current_command)", "                        if len(current_command.frame) == len(frame):\n                            self._log.debug(\"Config command: %s\", current_command)")
m("c20-timeout-reported-good", "C20", HID, "                        self._log.warning(\"Failed sendtwice command: %s\", current_command)\n                        self.bus_traffic._invoke(current_command, None, True)", "                        self._log.warning(\"Failed sendtwice command: %s\", current_command)\n                        self.bus_traffic._invoke(current_command, None, False)")
m("c20-unregister-wrong-handle", "C20", HID, "            del self._callback._callbacks[self]", "            del self._callback._callbacks[next(iter(self._callback._callbacks))]")
m("c20-serial-dt-not-reset", "C20", SER, "                    else:\n                        self._prev_rx_enable_dt = 0\n\n                    _LOG.debug(f\"Adding DALI command to queue: {dali_command}\")\n                    self._queue_rx_dali.distribute(dali_command)", "                    _LOG.debug(f\"Adding DALI command to queue: {dali_command}\")\n                    self._queue_rx_dali.distribute(dali_command)")
m("c20-watch-timeout-longer", "C20", HID, "await asyncio.wait_for(self._bus_watch_data_available.wait(), 0.2)", "await asyncio.wait_for(self._bus_watch_data_available.wait(), 0.5)")
m("c20-query-answer-dropped-on-own", "C20", HID, "        elif data[0] == self._MODE_RESPONSE:\n            self._bus_watch_data.append(data)\n            self._bus_watch_data_available.set()", "        elif data[0] == self._MODE_RESPONSE:\n            if data[1] != self._RESPONSE_FRAME_DALI8:\n                self._bus_watch_data.append(data)\n                self._bus_watch_data_available.set()")

# ---- subtler variants that the repository's own tests do not see
m("c07-in-use-collision-ignored", "C07", SEQ, "                if in_use.value:\n                    available_addresses.remove(a)",
  "                if in_use.value and not in_use.raw_value.error:\n                    available_addresses.remove(a)")
m("c07-leaf-collision-top-only", "C07", SEQ, 'return "clash" if r.raw_value.error else low', 'return "clash" if (r.raw_value.error and low < 0xffffff) else low')
m("c07-no-terminate-when-none-found", "C07", SEQ, "    yield Terminate()\n    yield progress(message=\"Addressing complete\")", "    if available_addresses is not None and len(available_addresses) < 64:\n        yield Terminate()\n    yield progress(message=\"Addressing complete\")")
m("c08-g1-error-unchecked", "C08", SEQ, "    if g1.raw_value.error:\n        raise DALISequenceError(\"Framing error reading groups eight to fifteen\")\n", "")
m("c09-latch-skipped-for-206", "C09", LOC, "        if use_latch and self.has_latch:\n            yield _EnableWriteMemory(addr)\n            yield _DTR0(addr, 2)\n            yield _WriteMemoryLocationNoReply(addr, 0xAA)\n            dtr0 = 3",
  "        if use_latch and self.has_latch and self.address != 206:\n            yield _EnableWriteMemory(addr)\n            yield _DTR0(addr, 2)\n            yield _WriteMemoryLocationNoReply(addr, 0xAA)\n            dtr0 = 3")
m("c09-from-list-short-list", "C09", LOC, "                r = list_[location.address]\n            except IndexError:\n                raise MemoryLocationNotImplemented(f'List is missing memory location {str(location)}.')",
  "                r = list_[location.address]\n            except IndexError:\n                r = 0xff")
m("c10-echo-check-not-on-last-byte", "C10", LOC, "                if r.raw_value.as_integer != value:", "                if r.raw_value.as_integer != value and location is not cls.locations[-1]:")
m("c10-relock-only-when-locked-before", "C10", LOC, "        if unlock_required:\n            yield _DTR0(addr, 2)\n            yield _WriteMemoryLocationNoReply(addr, 0xff)", "        if unlock_required and not force_unlock:\n            yield _DTR0(addr, 2)\n            yield _WriteMemoryLocationNoReply(addr, 0xff)")
m("c13-shift-wrong-above-16-bits", "C13", DSEQ, "        value >>= 8 - resolution", "        value >>= (8 - resolution) if value < (1 << 24) else 0")
m("c13-filter-md-hi-swapped", "C13", DSEQ, 'lo, md, hi = filter_value.to_bytes(3, "little")', 'lo, hi, md = filter_value.to_bytes(3, "little")')
m("c13-scan-ignores-reset-state", "C13", DHLP, "                if (\n                    rsp.short_address_is_mask\n                    or rsp.reset_state\n                ):\n                    continue", "                if (\n                    rsp.short_address_is_mask\n                ):\n                    continue")
m("c13-scheme-readback-skipped", "C13", DSEQ, "    rsp = yield QueryEventScheme(device=device, instance=instance)\n    return rsp", "    rsp = yield QueryEventScheme(device=device, instance=instance)\n    return rsp if pos else None")
m("c14-limit-dtr-swapped", "C14", GSEQ, "    yield DTR0(tc_bytes[0])\n    yield DTR1(tc_bytes[1])\n    yield DTR2(what_limit)", "    yield DTR1(tc_bytes[0])\n    yield DTR0(tc_bytes[1])\n    yield DTR2(what_limit)")
m("c14-no-activate-for-broadcast", "C14", GSEQ, "    yield SetTemporaryColourTemperature(address)\n    yield Activate(address)", "    yield SetTemporaryColourTemperature(address)\n    if type(address).__name__ != 'GearBroadcast':\n        yield Activate(address)")
m("c16-luba-late-raw-kept", "C16", SER, "                while not self._queue_rx_raw_dali.empty():\n                    item = self._queue_rx_raw_dali.get_nowait()\n                    _LOG.critical(f\"LUBA RX DALI queue discarding: {item}\")", "                if qlen == 1:\n                    item = self._queue_rx_raw_dali.get_nowait()\n                    _LOG.critical(f\"LUBA RX DALI queue discarding: {item}\")")

SEEDS = {"C07": 6000, "C08": 60000, "C09": 1500, "C10": 1500, "C13": 40000, "C14": 40000, "C15": 12000,
         "C16": 12000, "C17": 240, "C18": 5400, "C19": 20000, "C20": 12000}

# ---- added with the round-2 strengthenings (cancelled sends, generators that misbehave on close, value-level writes, ...)
m("c09-unlatch-without-latch", "C09", LOC, "        if use_latch and self.has_latch:\n            # The reads above have reset the unit's write enable state;",
  "        if self.has_latch:\n            # The reads above have reset the unit's write enable state;")
m("c09-stop-at-first-silent", "C09", LOC, "            else:\n                raw_data.append(None)\n", "            else:\n                break\n")
m("c10-tmask-is-mask", "C10", LOC, "            return cls.tmask\n        if not isinstance(value, int):", "            return cls.mask\n        if not isinstance(value, int):")
m("c10-string-no-nul", "C10", LOC, "            raw = raw + b'\\x00'", "            pass")
m("c15-hid-send-lock-kept-on-cancel", "C15", HID,
  "            return response\n        finally:\n            if not in_transaction:\n                self.transaction_lock.release()\n\n    async def power_supply",
  "        except BaseException as e:\n            if not in_transaction and not isinstance(e, asyncio.CancelledError):\n                self.transaction_lock.release()\n            raise\n        if not in_transaction:\n            self.transaction_lock.release()\n        return response\n\n    async def power_supply")
m("c15-hid-close-before-release", "C15", HID, "            self.transaction_lock.release()\n            seq.close()", "            seq.close()\n            self.transaction_lock.release()")
m("c17-hasseb-stale-response-not-cleared", "C17", HID, "            # that become available in the future.\n            self._response_available.clear()\n", "            # that become available in the future.\n")
m("c20-tridonic-watch-only-when-subscribed", "C20", HID, "        elif data[0] == self._MODE_OBSERVE:\n            # Something happened that we didn't initiate with a command\n            self._bus_watch_data.append(data)\n            self._bus_watch_data_available.set()",
  "        elif data[0] == self._MODE_OBSERVE:\n            # Something happened that we didn't initiate with a command\n            if self.bus_traffic._callbacks:\n                self._bus_watch_data.append(data)\n                self._bus_watch_data_available.set()")

m("c15-serial-progress-exception-swallowed", "C15", SER, "                        if progress:\n                            progress(cmd)",
  "                        if progress:\n                            try:\n                                progress(cmd)\n                            except Exception:\n                                pass")
m("c15-hid-lock-kept-when-progress-raises", "C15", HID, "                    if progress:\n                        progress(cmd)",
  "                    if progress:\n                        try:\n                            progress(cmd)\n                        except Exception:\n                            await self.transaction_lock.acquire()\n                            raise")


def run_one(job):
    mid, prop, path, old, new = job
    wt = "/tmp/mut_%s" % mid
    res = {"id": mid, "property": prop, "file": path}
    t0 = time.time()
    try:
        subprocess.run(["git", "-C", REPO, "worktree", "remove", "--force", wt], capture_output=True)
        shutil.rmtree(wt, ignore_errors=True)
        subprocess.run(["git", "-C", REPO, "worktree", "add", "--detach", wt, "HEAD"], check=True,
                       capture_output=True)
        p = os.path.join(wt, path)
        s = open(p).read()
        if s.count(old) != 1:
            res["status"] = "PATCH-DOES-NOT-APPLY (%d matches)" % s.count(old)
            return res
        open(p, "w").write(s.replace(old, new))
        t = subprocess.run(["/venv/bin/python", "-m", "pytest", "-q", "-p", "no:cacheprovider",
                            "--continue-on-collection-errors", "--timeout=600"], cwd=wt,
                           capture_output=True, text=True, env=dict(os.environ, PYTHONPATH=wt))
        tail = (t.stdout.strip().splitlines() or [""])[-1]
        res["suite"] = tail
        if "110 passed" not in tail:
            res["status"] = "SUITE-FAILS"
            return res
        env = dict(os.environ, VERIF_REPO=wt, VERIF_WORKERS="2")
        c = subprocess.run([os.path.join(VERIF, "check"), prop, "--seeds", str(SEEDS[prop]), "--no-evidence"],
                           cwd=VERIF, capture_output=True, text=True, env=env, timeout=1500)
        out = c.stdout
        sigs = [l.split("violation signature ", 1)[1] for l in out.splitlines() if l.startswith("violation signature ")]
        res["exit"] = c.returncode
        res["signatures"] = sigs[:4]
        res["status"] = "detected" if (c.returncode == 1 and "VIOLATION property=%s" % prop in out) else \
            ("HARNESS-ERROR" if c.returncode == 2 else "MISSED")
        if res["status"] != "detected":
            res["tail"] = out.strip().splitlines()[-3:]
    except Exception as e:                      # noqa: BLE001
        res["status"] = "ERROR %r" % (e,)
    finally:
        subprocess.run(["git", "-C", REPO, "worktree", "remove", "--force", wt], capture_output=True)
        shutil.rmtree(wt, ignore_errors=True)
        res["wall_s"] = round(time.time() - t0, 1)
    return res


def main():
    import argparse
    ap = argparse.ArgumentParser()
    ap.add_argument("--only", default="")
    ap.add_argument("--jobs", type=int, default=7)
    a = ap.parse_args()
    only = [x for x in a.only.split(",") if x]
    jobs = [j for j in M if not only or j[1] in only or j[0] in only]
    results = []
    with cf.ThreadPoolExecutor(max_workers=a.jobs) as ex:
        for r in ex.map(run_one, jobs):
            print("%-40s %-4s %-10s %6.1fs %s" % (r["id"], r["property"], r["status"], r.get("wall_s", 0),
                                                 (r.get("signatures") or r.get("tail") or [""])[0][:110]))
            sys.stdout.flush()
            results.append(r)
    # replay files written while checking mutants are scratch
    json.dump(results, open(os.path.join(VERIF, "selftest", "mutants_result.json"), "w"), indent=1)
    missed = [r for r in results if r["status"] != "detected"]
    print("%d mutants, %d detected, %d not: %s" % (len(results), len(results) - len(missed), len(missed),
                                                  [(r["id"], r["status"]) for r in missed]))
    return 1 if missed else 0


if __name__ == "__main__":
    sys.exit(main())
