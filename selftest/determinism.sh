#!/bin/sh
# Determinism self-test: same run-seeds -> same event-log digests in fresh
# interpreters under different PYTHONHASHSEED values and twice in a row.
# usage: selftest/determinism.sh [N=300] [IDs...]
cd "$(dirname "$0")/.."
N=${1:-300}; shift 2>/dev/null
IDS=${*:-$(ls checks | sed -n 's/^\(c[0-9][0-9]\)\.py$/\1/p' | tr a-z A-Z)}
rc=0
for id in $IDS; do
  T=$(mktemp -d)
  for hs in 0 1 12345; do
    VERIF_KEEP_HASHSEED=1 PYTHONHASHSEED=$hs ./check $id --digests $N > $T/$hs.txt 2>&1 &
  done
  VERIF_KEEP_HASHSEED=1 PYTHONHASHSEED=0 ./check $id --digests $N > $T/again.txt 2>&1 &
  wait
  if cmp -s $T/0.txt $T/1.txt && cmp -s $T/0.txt $T/12345.txt && cmp -s $T/0.txt $T/again.txt \
     && [ "$(wc -l < $T/0.txt)" -ge "$N" ]; then
    echo "$id deterministic over $N seeds x {hashseed 0,1,12345, repeat}"
  else
    echo "$id NONDETERMINISTIC (see $T)"; rc=1; continue
  fi
  rm -rf $T
done
exit $rc
