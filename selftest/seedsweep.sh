#!/bin/sh
# Run every quick check under several VERIF_SEED values on the unchanged tree:
# any exit code other than 0 is a false alarm (or a new finding) to look at.
# usage: selftest/seedsweep.sh "1 2 3" [IDs...]
cd "$(dirname "$0")/.."
SEEDS=${1:-"1 2 3 4 5"}; shift 2>/dev/null
IDS=${*:-$(ls checks | sed -n 's/^\(c[0-9][0-9]\)\.py$/\1/p' | tr a-z A-Z)}
rc=0
for id in $IDS; do
  for s in $SEEDS; do
    out=$(VERIF_SEED=$s ./check $id --tier quick --no-evidence 2>&1); e=$?
    if [ $e -ne 0 ]; then rc=1; echo "$id VERIF_SEED=$s exit=$e"; echo "$out" | grep -A2 "^violation signature\|HARNESS" | cut -c1-300; else echo "$id VERIF_SEED=$s ok: $(echo "$out" | tail -1 | cut -c1-90)"; fi
  done
done
exit $rc
